#!/usr/bin/env python3
"""Regenerates /verif/MANIFEST.json from checks.py (claimed checks) and properties.jsonl (everything else -> not_applicable)."""
import json, os, sys
VERIF = os.path.dirname(os.path.abspath(__file__))
sys.path.insert(0, VERIF)
from checks import PROPS, MANIFEST_TEXT

ids = [json.loads(l)["id"] for l in open(os.path.join(VERIF, "properties.jsonl"))]
checks = []
na = []
for pid in ids:
    if pid in PROPS and pid in MANIFEST_TEXT:
        m = MANIFEST_TEXT[pid]
        checks.append({
            "property_id": pid,
            "quick_cmd": "./run %s --tier quick" % pid,
            "thorough_cmd": "./run %s --tier thorough" % pid,
            "evidence_file": "/verif/evidence/%s.json" % pid,
            "replay_cmd_template": "./run replay %s {path}" % pid,
            "engine": "verif-pbt",
            "level_claimed": {"category": "exploration", "text": m["level"], "design_ref": m.get("design_ref", "DESIGN.md section 4, " + pid)},
            "level_note": m["note"],
            "technique": m["technique"],
        })
    else:
        na.append({"property_id": pid, "reason": "check not built yet in this session (planned, see DESIGN.md section 7); no technique switch intended"})
man = {
    "version": 1,
    "setup_cmd": "./run build-all",
    "hooks": {
        "guard": "verif",
        "enable": "no source hooks: harness _test.go files (//go:build verif) are injected at build time with go test -tags verif -overlay=... -modfile=... (see DESIGN.md 2.1); /repo is compiled from its current working tree",
        "baseline_off_cmd": "for m in . ./v2; do (cd /repo/$m && GOFLAGS=-mod=mod go test -json -vet=off -count=1 -timeout 25m ./...); done",
        "source_commits": [],
        "add_only": True,
    },
    "engines": [{"name": "verif-pbt", "path": "/verif/run", "serves_properties": [c["property_id"] for c in checks],
                 "kind_free_text": "python driver + Go harnesses (pgregory.net/rapid v1.3.0 generators, deterministic small-scope enumerators, go test -race as invariant monitor, go test -fuzz targets); cases are plain JSON, replay bypasses rapid"}],
    "checks": checks,
    "not_applicable": na,
    "notes": "exit 0 = held on everything explored (KNOWN-FINDING lines for listed open findings), 1 = VIOLATION line, 2 = inconclusive (infrastructure / budget). VERIF_SEED selects the rapid seeds; VERIF_REPO may point the driver at another checkout (used for mutant trials).",
}
if not na:
    del man["not_applicable"]
json.dump(man, open(os.path.join(VERIF, "MANIFEST.json"), "w"), indent=1)
print("claimed:", [c["property_id"] for c in checks])
