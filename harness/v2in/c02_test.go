//go:build verif

package classifier

// C02: reported confidence never overstates the similarity of the reported span.
// Oracle: independent banded word-level Levenshtein between the reported span R and the
// corpus document K: Confidence <= 1 - L/|K| exactly; Confidence == 1 only if R == K;
// StartLine/EndLine are the lines of the first/last word of R.

import (
	"fmt"
	"os"
	"strings"
	"testing"
	"unicode"

	"pgregory.net/rapid"
	"verif/lib"
)

type c02Case struct {
	Thr    float64   `json:"thr"`
	Corpus corpusSel `json:"corpus"`
	In     recipe    `json:"in"`
	// Trace > 0: scoring is traced (no-op tracer) while the input is matched; 1 = all phases, all licenses,
	// 2 = phase "score" for every License/*. Small corpora only (the dump of every diff is slow).
	Trace int `json:"trace,omitempty"`
}

func c02Gen(t *rapid.T) interface{} {
	c := &c02Case{}
	c.Corpus, c.Thr = genCorpusThr(t, 0.5, 6)
	c.In = genRecipe(t, c.Thr)
	if !c.Corpus.Full {
		if lib.IntN(t, 0, 3, "trace") == 0 {
			c.Trace = lib.IntN(t, 1, 2, "traceKind")
		}
		c.Corpus = smallCorpusAround(t, c.In.docs())
		if c.Corpus.ReAdd && len(c.In.docs()) > 0 && lib.Bool(t, "inputIsOlderRevision") {
			// the corpus entry was replaced: a text equal to what it held before must be scored against what it holds now
			c.In.Segs = append(c.In.Segs, seg{Kind: "raw", Raw: olderRevision(assets()[c.In.docs()[0]%len(assets())].Content)})
		}
		if lib.IntN(t, 0, 2, "withSynth") == 0 {
			// a user-added document (short words, one-letter words, numbers; sometimes ending in such a word) and an
			// input made from it: words dropped at the end / start, a few replaced
			d := genSynthDoc(t, 0, 12, 120)
			w := strings.Fields(d.Text)
			if lib.Bool(t, "shortLastWord") {
				w = append(w, lib.PickStr(t, []string{"b", "2", "a", "x", "3"}, "lastWord"))
				d.Text = strings.Join(w, " ")
			}
			c.Corpus.Synth = append(c.Corpus.Synth, d)
			in := append([]string{}, w...)
			dropTail := lib.IntN(t, 0, 3, "dropTail")
			if dropTail < len(in) {
				in = in[:len(in)-dropTail]
			}
			for i := 0; i < lib.IntN(t, 0, 4, "nsub"); i++ {
				in[lib.IntN(t, 0, len(in)-1, "subPos")] = "zqsubstituted"
			}
			c.In.Segs = append(c.In.Segs, seg{Kind: "raw", Raw: []byte("zqlead zqwords here\n" + strings.Join(in, " ") + "\n")})
		}
	}
	return c
}

// boundedLevenshtein returns the word Levenshtein distance between a and b if it is <= bound, else bound+1.
// Token id 0 (unknown word) never equals anything.
func boundedLevenshtein(a, b []tokenID, bound int) int {
	n, m := len(a), len(b)
	if n-m > bound || m-n > bound {
		return bound + 1
	}
	const inf = 1 << 30
	prev := make([]int, m+1)
	cur := make([]int, m+1)
	for j := 0; j <= m; j++ {
		if j <= bound {
			prev[j] = j
		} else {
			prev[j] = inf
		}
	}
	for i := 1; i <= n; i++ {
		lo, hi := i-bound, i+bound
		if lo < 1 {
			lo = 1
		}
		if hi > m {
			hi = m
		}
		if lo-1 >= 0 {
			if i <= bound && lo == 1 {
				cur[0] = i
			} else {
				cur[lo-1] = inf
			}
		}
		rowMin := inf
		if lo == 1 && cur[0] < rowMin {
			rowMin = cur[0]
		}
		for j := lo; j <= hi; j++ {
			cost := 1
			if a[i-1] == b[j-1] && a[i-1] != unknownIndex {
				cost = 0
			}
			v := prev[j-1] + cost
			if prev[j]+1 < v {
				v = prev[j] + 1
			}
			if cur[j-1]+1 < v {
				v = cur[j-1] + 1
			}
			cur[j] = v
			if v < rowMin {
				rowMin = v
			}
		}
		if hi < m {
			cur[hi+1] = inf
		}
		if rowMin > bound {
			return bound + 1
		}
		prev, cur = cur, prev
	}
	if prev[m] > bound {
		return bound + 1
	}
	return prev[m]
}

func c02Check(ci interface{}) lib.Outcome {
	c := ci.(*c02Case)
	if c.Thr <= 0 || c.Thr > 1 {
		return lib.Outcome{Skip: "malformed"}
	}
	cl := classifierFor(c.Thr, c.Corpus)
	input := c.In.build(cl)
	if c.Trace > 0 && !c.Corpus.Full {
		tc := &TraceConfiguration{TracePhases: "*", TraceLicenses: "*", Tracer: func(string, ...interface{}) {}}
		if c.Trace == 2 {
			tc = &TraceConfiguration{TracePhases: "score", TraceLicenses: "License/*,Header/*", Tracer: func(string, ...interface{}) {}}
		}
		cl.SetTraceConfiguration(tc)
	}
	res := cl.Match(input)
	cl.SetTraceConfiguration(nil)
	toks := ids(cl, input)
	classes := recipeClasses(c.In)
	if c.Trace > 0 && !c.Corpus.Full {
		classes = append(classes, "scoring-traced")
	}
	fuzzy, exact, tight, slack := 0, 0, 0, 0
	for _, m := range res.Matches {
		if m.MatchType == "Copyright" {
			continue
		}
		key := fmt.Sprintf("%s%c%s%c%s", m.MatchType, os.PathSeparator, m.Name, os.PathSeparator, m.Variant)
		d := cl.docs[key]
		desc := fmt.Sprintf("%s/%s/%s conf=%v tokens=%d-%d lines=%d-%d", m.MatchType, m.Name, m.Variant, m.Confidence, m.StartTokenIndex, m.EndTokenIndex, m.StartLine, m.EndLine)
		if d == nil {
			return lib.Outcome{Violation: "match names a document that is not in the corpus: " + desc, Classes: classes}
		}
		if m.StartTokenIndex < 0 || m.EndTokenIndex < m.StartTokenIndex || m.EndTokenIndex >= len(toks) {
			return lib.Outcome{Violation: fmt.Sprintf("token span outside the input (%d words): %s", len(toks), desc), Classes: classes}
		}
		K := idsOnly(d.Tokens)
		R := idsOnly(toks[m.StartTokenIndex : m.EndTokenIndex+1])
		klen := len(K)
		if klen == 0 {
			return lib.Outcome{Violation: "match against an empty document: " + desc, Classes: classes}
		}
		// largest integer distance still compatible with the reported confidence
		maxL := int((1-m.Confidence)*float64(klen)) + 2
		for maxL >= 0 && !(m.Confidence <= 1.0-float64(maxL)/float64(klen)) {
			maxL--
		}
		if maxL < 0 {
			return lib.Outcome{Violation: "confidence above 1: " + desc, Classes: classes}
		}
		L := boundedLevenshtein(R, K, maxL)
		if L > maxL {
			exactL := boundedLevenshtein(R, K, len(R)+len(K))
			return lib.Outcome{Violation: fmt.Sprintf("confidence overstates similarity: %s; |K|=%d |R|=%d word Levenshtein L=%d so 1-L/|K|=%v < confidence", desc, klen, len(R), exactL, 1.0-float64(exactL)/float64(klen)), Classes: classes}
		}
		if m.Confidence == 1.0 {
			if L != 0 {
				return lib.Outcome{Violation: "confidence 1.0 but span differs from the document: " + desc, Classes: classes}
			}
			exact++
		} else {
			fuzzy++
		}
		if L == maxL {
			tight++
		} else {
			slack++
		}
		if m.StartLine != toks[m.StartTokenIndex].Line || m.EndLine != toks[m.EndTokenIndex].Line {
			return lib.Outcome{Violation: fmt.Sprintf("lines are not those of the first/last word of the span (%d, %d): %s", toks[m.StartTokenIndex].Line, toks[m.EndTokenIndex].Line, desc), Classes: classes}
		}
	}
	o := lib.Outcome{Classes: classes, Nontrivial: fuzzy > 0, Extra: map[string]int{"fuzzy_matches": fuzzy, "exact_matches": exact, "bound_tight": tight, "bound_slack": slack}}
	if fuzzy+exact == 0 {
		o.Classes = append(o.Classes, "no-license-match")
	}
	if o.Nontrivial {
		o.FP = fmt.Sprintf("%v|%s|%v", c.Thr, c.In.describe(), len(input))
		o.Sample = map[string]interface{}{"threshold": c.Thr, "input": c.In.describe(), "matches": fmtRecs(licensesOnly(canon(res)))}
	}
	return o
}

func TestVerif_C02(t *testing.T) {
	lib.Run(t, lib.Spec{ID: "C02", Part: "similarity-bound",
		Rule: "inputs: pristine / edited (word deletion, OOV and in-vocabulary substitution, insertion, line deletion/duplication; edit rate up to 2(1-threshold)) / head- or tail-truncated corpus documents and scenario files, alone, in OOV context or concatenated (2-4); full corpus (menu thresholds >= 0.7) or small corpus (thresholds 0.5-1); oracle = independent banded word Levenshtein; non-trivial = at least one fuzzy match (0 < L); distinct = distinct (threshold, recipe)",
		New:  func() interface{} { return &c02Case{} }, Gen: c02Gen, Check: c02Check})
}

// --- self test of the oracle: banded Levenshtein against the textbook quadratic algorithm

type c02LevCase struct {
	A     []int `json:"a"`
	B     []int `json:"b"`
	Bound int   `json:"bound"`
}

func naiveLevenshtein(a, b []tokenID) int {
	d := make([][]int, len(a)+1)
	for i := range d {
		d[i] = make([]int, len(b)+1)
		d[i][0] = i
	}
	for j := 0; j <= len(b); j++ {
		d[0][j] = j
	}
	for i := 1; i <= len(a); i++ {
		for j := 1; j <= len(b); j++ {
			cost := 1
			if a[i-1] == b[j-1] && a[i-1] != unknownIndex {
				cost = 0
			}
			v := d[i-1][j-1] + cost
			if d[i-1][j]+1 < v {
				v = d[i-1][j] + 1
			}
			if d[i][j-1]+1 < v {
				v = d[i][j-1] + 1
			}
			d[i][j] = v
		}
	}
	return d[len(a)][len(b)]
}

func TestVerif_C02_OracleSelfTest(t *testing.T) {
	lib.Run(t, lib.Spec{ID: "C02", Part: "oracle-selftest",
		Rule: "self test of the oracle: banded Levenshtein == quadratic Levenshtein on random sequences over 4 symbols (0 = unknown word)",
		New:  func() interface{} { return &c02LevCase{} },
		Gen: func(t *rapid.T) interface{} {
			return &c02LevCase{A: lib.Ints(t, 0, 14, 0, 3, "a"), B: lib.Ints(t, 0, 14, 0, 3, "b"), Bound: lib.IntN(t, 0, 16, "bound")}
		},
		Check: func(ci interface{}) lib.Outcome {
			c := ci.(*c02LevCase)
			a, b := make([]tokenID, len(c.A)), make([]tokenID, len(c.B))
			for i, x := range c.A {
				a[i] = tokenID(x)
			}
			for i, x := range c.B {
				b[i] = tokenID(x)
			}
			want := naiveLevenshtein(a, b)
			if want > c.Bound {
				want = c.Bound + 1
			}
			if got := boundedLevenshtein(a, b, c.Bound); got != want {
				return lib.Outcome{Violation: fmt.Sprintf("harness bug: boundedLevenshtein(%v,%v,%d)=%d want %d", c.A, c.B, c.Bound, got, want)}
			}
			return lib.Outcome{}
		}})
}

// --- line attribution, checked independently of the tokenizer's own line counter

// C02 says StartLine / EndLine are the lines of the first and last word of the span. The main oracle reads the line
// of a word from the tokenizer; this part checks that attribution itself against the physical lines of the input:
// the letters of a word must be found on the line it is attributed to (or, for a word hyphenated across a line
// break, end that line and continue on the next line that has letters).

type c02LineCase struct {
	X      recipe `json:"x"`
	Layout []int  `json:"layout,omitempty"` // optional synthetic hyphen / newline layout appended to X
}

var c02LayoutAtoms = []string{"alpha", "bravo", "charlie", "delta", "echo", "foxtrot", " ", " ", "\n", "\n", "-\n", "-\n", "\n\n", "obtain-\ning", "-", " - ", "x", "a", "\t", "1.", "soft-\n", "-\n\n", "  \n", "--\n", "---\n", "\u2014-\n", "ware--\n"}

func c02LineGen(t *rapid.T) interface{} {
	c := &c02LineCase{}
	if lib.IntN(t, 0, 2, "withRecipe") > 0 {
		c.X = genRecipe(t, 0.8)
	}
	if len(c.X.Segs) == 0 || lib.Bool(t, "withLayout") {
		c.Layout = lib.Ints(t, 1, 60, 0, len(c02LayoutAtoms)-1, "layout")
	}
	return c
}

func asciiLetters(s string) string {
	var sb strings.Builder
	for _, r := range s {
		// rune-wise lower-casing, as the tokenizer does it: U+0130 and U+212A (Kelvin sign) become plain i and k
		r = unicode.ToLower(r)
		if r >= 'a' && r <= 'z' {
			sb.WriteByte(byte(r))
		}
	}
	return sb.String()
}

func c02LineCheck(ci interface{}) lib.Outcome {
	c := ci.(*c02LineCase)
	cl := classifierFor(0.8, corpusSel{Docs: []int{0}})
	x := c.X.build(cl)
	for _, a := range c.Layout {
		x = append(x, c02LayoutAtoms[((a%len(c02LayoutAtoms))+len(c02LayoutAtoms))%len(c02LayoutAtoms)]...)
	}
	raw := strings.Split(string(x), "\n")
	letters := make([]string, len(raw)+2)
	special := make([]bool, len(raw)+2)
	for i, l := range raw {
		letters[i+1] = asciiLetters(l)
		// lines on which a token's text is not simply the letters of the line: entities and mapped symbols
		special[i+1] = strings.ContainsAny(l, "&©§¤")
	}
	ws := words(x, true)
	checked, joined := 0, 0
	for _, w := range ws {
		if w.Line < 1 || w.Line > len(raw) {
			return lib.Outcome{Violation: fmt.Sprintf("input %s + layout %v: word %q is attributed to line %d but the input has %d lines", c.X.describe(), c.Layout, w.Word, w.Line, len(raw))}
		}
		ok := len(w.Word) >= 3 && w.Word == asciiLetters(w.Word) && !strings.Contains(w.Word, "http")
		if _, sp := c11Canon[w.Word]; sp {
			ok = false
		}
		for _, p := range c06Spellings {
			if p[1] == w.Word {
				ok = false
			}
		}
		if !ok || special[w.Line] {
			continue
		}
		if strings.Contains(letters[w.Line], w.Word) {
			checked++
			continue
		}
		// hyphenated across line breaks: a prefix ends this line, the rest continues on following lines with letters
		found := false
		for cut := 1; cut < len(w.Word) && !found; cut++ {
			if !strings.HasSuffix(letters[w.Line], w.Word[:cut]) {
				continue
			}
			rest := w.Word[cut:]
			for k := w.Line + 1; k <= len(raw) && rest != ""; k++ {
				if special[k] {
					rest = ""
					break
				}
				if letters[k] == "" {
					continue
				}
				if strings.HasPrefix(letters[k], rest) {
					rest = ""
				} else if strings.HasPrefix(rest, letters[k]) && strings.HasSuffix(strings.TrimRight(raw[k-1], " \t\r"), "-") {
					rest = rest[len(letters[k]):] // the whole line is one more fragment of the word
				} else {
					break
				}
			}
			found = rest == ""
		}
		if found {
			joined++
			continue
		}
		return lib.Outcome{Violation: fmt.Sprintf("input %s + layout %v: word %q is attributed to line %d, but that line reads %q", c.X.describe(), c.Layout, w.Word, w.Line, raw[w.Line-1])}
	}
	var classes []string
	if joined > 0 {
		classes = append(classes, "hyphen-joined-word")
	}
	if len(c.Layout) > 0 {
		classes = append(classes, "synthetic-hyphen-layout")
	}
	return lib.Outcome{Nontrivial: checked > 3, FP: fmt.Sprintf("%s|%v", c.X.describe(), c.Layout), Classes: classes, Extra: map[string]int{"words_checked": checked, "hyphen_joined_words_checked": joined},
		Sample: map[string]interface{}{"input": c.X.describe(), "layout_atoms": len(c.Layout), "words_checked": checked, "head": lib.Preview(x, 80)}}
}

func TestVerif_C02_Lines(t *testing.T) {
	lib.Run(t, lib.Spec{ID: "C02", Part: "line-attribution",
		Rule: "generated license-bearing inputs and synthetic layouts of words, blanks, newlines, blank lines and hyphens at line ends; oracle independent of the tokenizer's line counter: the letters of every plain ASCII word (>= 3 letters, not subject to spelling substitution) must occur on the physical line the word is attributed to, or end that line and continue on the following lines when hyphenated; non-trivial = more than 3 words checked",
		New:  func() interface{} { return &c02LineCase{} }, Gen: c02LineGen, Check: c02LineCheck})
}
