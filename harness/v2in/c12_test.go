//go:build verif

package classifier

// C12: LoadLicenses(dir) never panics, ignores shallow / non-txt files and equals AddContent per file,
// however the directory is spelled.

import (
	"fmt"
	"io/ioutil"
	"os"
	"path/filepath"
	"sort"
	"strings"
	"testing"

	"pgregory.net/rapid"
	"verif/lib"
)

type c12File struct {
	Path    []string `json:"path"` // components below the root; the last one is the file name
	Content int      `json:"content"`
}

type c12Case struct {
	Files    []c12File `json:"files"`
	Spelling int       `json:"spelling"`
	RootName string    `json:"root"`
	// Pre documents are added with AddContent before LoadLicenses is called (a classifier that already holds
	// documents: a second corpus directory, in-house licenses added first); the reference gets them the same way.
	Pre int `json:"pre,omitempty"`
}

var c12DirNames = []string{"License", "Header", "Supplement", "MIT", "Apache-2.0", "a", "b.c", "xtxt", "notes.txt", "v 1", "ünï", "Licen%E7a", ".staging", ".x"}
var c12FileNames = []string{"license.txt", "a.txt", "header.TXT", "READMEtxt", "notes.md", "LICENSE", "b.txt", "x.txt.bak", "c.txt", ".txt", "txt", "licen%E7a.txt", "%FF%FE.txt"}
var c12RootNames = []string{"root", "corpus.d", "rtxt", "r.o.o.t", "assets"}
var c12Spellings = []string{"abs", "abs/", "abs//", "abs/.", "rel", "rel/", "./rel", "./rel/", "../parent/rel", "dot", "rel/./", "abs/../root", "./parent/rel"}

func c12Contents() []string {
	a := assets()
	pick := func(cat, name string) string {
		for _, f := range a {
			if f.Cat == cat && f.Name == name {
				return string(f.Content)
			}
		}
		return "missing " + name
	}
	return []string{pick("License", "ISC"), pick("License", "MIT"), pick("Header", "Apache-2.0"), pick("License", "WTFPL"), "",
		"alpha bravo charlie delta echo foxtrot golf hotel india juliet kilo lima\nmike november oscar papa quebec romeo sierra tango\n",
		"the quick brown fox jumps over the lazy dog again and again until the cows come home\n", "one two three four five six seven eight nine ten\n",
		// files larger than any shipped asset (62350 bytes), at and beyond 64 KiB: a loader that reads through a fixed
		// or shared buffer differs from AddContent only there
		c12Big(65536), c12Big(66000), c12Big(100000)}
}

// c12Big returns n bytes of lines made of words that occur once each (repeated phrases would make the q-gram
// pairing quadratic and the check slow without adding anything).
func c12Big(n int) string {
	var sb strings.Builder
	for i := 0; sb.Len() < n; i++ {
		fmt.Fprintf(&sb, "bg%da bg%db bg%dc bg%dd bg%de bg%df bg%dg bg%dh\n", i, i, i, i, i, i, i, i)
	}
	return sb.String()[:n-1] + "\n"
}

func c12Gen(t *rapid.T) interface{} {
	c := &c12Case{Spelling: lib.IntN(t, 0, len(c12Spellings)-1, "spelling"), RootName: lib.PickStr(t, c12RootNames, "root")}
	n := lib.IntN(t, 0, 10, "nfiles")
	big := false
	shape := lib.IntN(t, 0, 2, "shape") // 0: all at depth 3 with txt names, 1: mostly depth 3, 2: anything
	for i := 0; i < n; i++ {
		depth := 3
		switch shape {
		case 1:
			depth = lib.PickInt(t, []int{3, 3, 3, 3, 1, 2}, "depth")
		case 2:
			depth = lib.IntN(t, 1, 5, "depth")
		}
		var p []string
		for d := 0; d < depth-1; d++ {
			p = append(p, lib.PickStr(t, c12DirNames, "dir"))
		}
		if shape == 0 {
			p = append(p, lib.PickStr(t, []string{"license.txt", "a.txt", "b.txt", "c.txt", "READMEtxt", "header.TXT", "notes.md"}, "file"))
		} else {
			p = append(p, lib.PickStr(t, c12FileNames, "file"))
		}
		content := lib.IntN(t, 0, 7, "content")
		if !big && lib.IntN(t, 0, 39, "bigFile") == 0 { // at most one per tree, in about one tree of eight
			big = true
			content = 8 + lib.IntN(t, 0, 2, "bigContent")
		}
		c.Files = append(c.Files, c12File{Path: p, Content: content})
	}
	if lib.IntN(t, 0, 2, "preloaded") == 0 {
		c.Pre = lib.IntN(t, 1, 2, "pre")
	}
	return c
}

// c12Decode turns %XX in a generated name into the byte XX: file names on Linux are arbitrary bytes (Latin-1 names
// are not valid UTF-8), but a case must survive its JSON encoding, which cannot carry such bytes in a string.
func c12Decode(s string) string {
	var sb strings.Builder
	for i := 0; i < len(s); i++ {
		if s[i] == '%' && i+2 < len(s)+0 && i+2 <= len(s)-1 {
			var v int
			if _, err := fmt.Sscanf(s[i+1:i+3], "%02X", &v); err == nil {
				sb.WriteByte(byte(v))
				i += 2
				continue
			}
		}
		sb.WriteByte(s[i])
	}
	return sb.String()
}

var c12Counter int

func c12Check(ci interface{}) lib.Outcome {
	c := ci.(*c12Case)
	if len(c.Files) > 40 || c.RootName == "" || strings.ContainsAny(c.RootName, "/\x00") || c.RootName == "." || c.RootName == ".." {
		return lib.Outcome{Skip: "malformed"}
	}
	contents := c12Contents()
	base := os.Getenv("VERIF_SCRATCH")
	if base == "" {
		base = os.TempDir()
	}
	c12Counter++
	parent := filepath.Join(base, fmt.Sprintf("c12-%d-%d", os.Getpid(), c12Counter))
	root := filepath.Join(parent, c.RootName)
	if err := os.MkdirAll(root, 0o755); err != nil {
		return lib.Outcome{Skip: "mkdir-failed"}
	}
	defer os.RemoveAll(parent)
	// materialise the tree; a path component may be used both as a directory and (later) as a file name: first use wins
	type placed struct {
		rel     []string
		content string
	}
	var files []placed
	for _, f := range c.Files {
		if len(f.Path) == 0 || len(f.Path) > 6 {
			return lib.Outcome{Skip: "malformed"}
		}
		dec := make([]string, len(f.Path))
		for i, comp := range f.Path {
			dec[i] = c12Decode(comp)
		}
		f.Path = dec
		ok := true
		for _, comp := range f.Path {
			if comp == "" || comp == "." || comp == ".." || strings.ContainsAny(comp, "/\x00") {
				ok = false
			}
		}
		if !ok {
			return lib.Outcome{Skip: "malformed"}
		}
		full := filepath.Join(append([]string{root}, f.Path...)...)
		if err := os.MkdirAll(filepath.Dir(full), 0o755); err != nil {
			continue // a prefix is already a file
		}
		if st, err := os.Stat(full); err == nil && st.IsDir() {
			continue // name already used as a directory
		} else if err == nil {
			continue // duplicate file: first one wins
		}
		content := contents[((f.Content%len(contents))+len(contents))%len(contents)]
		if err := ioutil.WriteFile(full, []byte(content), 0o644); err != nil {
			continue
		}
		files = append(files, placed{f.Path, content})
	}
	// spelling of the directory argument
	sp := c12Spellings[((c.Spelling%len(c12Spellings))+len(c12Spellings))%len(c12Spellings)]
	cwd, _ := os.Getwd()
	defer os.Chdir(cwd)
	var arg string
	switch sp {
	case "abs":
		arg = root
	case "abs/":
		arg = root + "/"
	case "abs//":
		arg = root + "//"
	case "abs/.":
		arg = root + "/."
	case "abs/../root":
		arg = root + "/../" + c.RootName
	case "dot":
		os.Chdir(root)
		arg = "."
	case "./parent/rel":
		os.Chdir(base)
		arg = "./" + filepath.Base(parent) + "/" + c.RootName
	default:
		os.Chdir(parent)
		switch sp {
		case "rel":
			arg = c.RootName
		case "rel/":
			arg = c.RootName + "/"
		case "./rel":
			arg = "./" + c.RootName
		case "./rel/":
			arg = "./" + c.RootName + "/"
		case "rel/./":
			arg = c.RootName + "/./"
		case "../parent/rel":
			arg = "../" + filepath.Base(parent) + "/" + c.RootName
		}
	}
	desc := func() string {
		var l []string
		for _, f := range files {
			l = append(l, strings.Join(f.rel, "/"))
		}
		sort.Strings(l)
		return fmt.Sprintf("LoadLicenses(%q) [spelling %s] on tree {%s}", arg, sp, strings.Join(l, ", "))
	}
	loaded := NewClassifier(0.8)
	loaded.SetTraceConfiguration(&TraceConfiguration{Tracer: func(string, ...interface{}) {}})
	preDocs := []corpusFile{{"Custom", "Inhouse-One", "v1.txt", []byte("this in house agreement grants the licensee a perpetual worldwide right to evaluate the enclosed materials for internal purposes only")},
		{"Custom", "Inhouse-Two", "v2.txt", []byte(contents[1])}}
	if c.Pre < 0 || c.Pre > len(preDocs) {
		return lib.Outcome{Skip: "malformed"}
	}
	for _, f := range preDocs[:c.Pre] {
		loaded.AddContent(f.Cat, f.Name, f.Variant, f.Content)
	}
	err := loaded.LoadLicenses(arg) // a panic is recovered by the runner and reported with this case
	os.Chdir(cwd)
	if err != nil {
		return lib.Outcome{Violation: fmt.Sprintf("%s returned error %v", desc(), err)}
	}
	// expectation
	allAtDepth3 := true
	stray := false
	ref := NewClassifier(0.8)
	wantKeys := map[string]bool{}
	for _, f := range preDocs[:c.Pre] {
		ref.AddContent(f.Cat, f.Name, f.Variant, f.Content)
		wantKeys[ref.generateDocName(f.Cat, f.Name, f.Variant)] = true
	}
	for _, f := range files {
		isTxt := strings.HasSuffix(f.rel[len(f.rel)-1], "txt")
		switch {
		case !isTxt || len(f.rel) < 3:
			stray = true
		case len(f.rel) == 3:
			ref.AddContent(f.rel[0], f.rel[1], f.rel[2], []byte(f.content))
			wantKeys[ref.generateDocName(f.rel[0], f.rel[1], f.rel[2])] = true
		default:
			allAtDepth3 = false
		}
	}
	// files shallower than category/name/variant or not ending in txt leave no document
	for k := range loaded.docs {
		if !wantKeys[k] && allAtDepth3 {
			return lib.Outcome{Violation: fmt.Sprintf("%s: unexpected document %q in the corpus", desc(), k)}
		}
	}
	classes := []string{"spelling-" + sp}
	if c.Pre > 0 {
		classes = append(classes, "classifier-held-documents-before")
	}
	if stray {
		classes = append(classes, "stray-files")
	}
	if !allAtDepth3 {
		classes = append(classes, "deeper-files(no-panic-only)")
		return lib.Outcome{Classes: classes, Nontrivial: len(files) > 0, FP: desc()}
	}
	var keys []string
	for k := range wantKeys {
		keys = append(keys, k)
	}
	sort.Strings(keys)
	for _, k := range keys {
		ld, rd := loaded.docs[k], ref.docs[k]
		if ld == nil {
			return lib.Outcome{Violation: fmt.Sprintf("%s: document %q missing from the corpus", desc(), k)}
		}
		if ld.Norm != rd.Norm || len(ld.Tokens) != len(rd.Tokens) {
			return lib.Outcome{Violation: fmt.Sprintf("%s: document %q has different content than AddContent gives", desc(), k)}
		}
	}
	// what was there before is still found
	for _, f := range preDocs[:c.Pre] {
		p := []byte(oovBlock(ref, 20, 3, 1) + string(f.Content) + "\n")
		if a, b := loaded.Match(p), ref.Match(p); resultString(a) != resultString(b) {
			return lib.Outcome{Violation: fmt.Sprintf("%s after AddContent of %d documents: Match on the text of %s differs from the AddContent-built classifier\n%s", desc(), c.Pre, f.key(), diffResults(b, a))}
		}
	}
	// identical Match results on probes: each file's content in context, and an edited variant
	for i, f := range files {
		probe := []byte(oovBlock(ref, 0, 4, 1) + f.content + "\n" + oovBlock(ref, 10, 3, 1))
		probes := [][]byte{probe, applyEdits(ref, probe, []edit{{Kind: "del", Pos: 7}, {Kind: "suboov", Pos: 13, Arg: 3}}, 0, 0)}
		for _, p := range probes {
			a, b := loaded.Match(p), ref.Match(p)
			if resultString(a) != resultString(b) {
				return lib.Outcome{Violation: fmt.Sprintf("%s: Match on probe %d differs from the AddContent-built classifier\n%s", desc(), i, diffResults(b, a))}
			}
		}
	}
	nt := len(keys) > 0 && (sp != "abs" && sp != "rel" || stray)
	return lib.Outcome{Classes: classes, Nontrivial: nt, FP: desc(), Sample: map[string]interface{}{"case": desc(), "documents": len(keys)}}
}

func TestVerif_C12_Trees(t *testing.T) {
	lib.Run(t, lib.Spec{ID: "C12", Part: "trees",
		Rule: "directory trees of 0-10 files at depth 1-5 (names with suffixes .txt .TXT txt-without-dot .md none .bak, directories named like files or ending in txt, blanks and non-ASCII), 8 contents incl. empty; the directory argument spelled 13 ways (absolute, trailing / // /., relative, ./, ../, '.', via ..); oracle: no panic, nil error, no document for shallow / non-txt files, and for trees with all txt files at depth 3: same keys and token sequences as AddContent and identical Match results on probes; non-trivial = at least one depth-3 txt file and (spelling other than the plain one, or stray files)",
		New:  func() interface{} { return &c12Case{} }, Gen: c12Gen, Check: c12Check})
}
