//go:build verif

package classifier

// C09: one classifier can be matched against from many goroutines at once.
// Oracle: (a) the binary is built with -race: any report is a violation (the driver sees the report and adopts
// the in-flight case); (b) every concurrent call returns exactly what the sequential reference returned.

import (
	"bytes"
	"fmt"
	"runtime"
	"sort"
	"sync"
	"testing"
	"time"

	"pgregory.net/rapid"
	"verif/lib"
)

type c09Case struct {
	Pool     []recipe `json:"pool"`
	Seqs     [][]int  `json:"seqs"`     // per goroutine: indices into the pool
	From     []bool   `json:"from"`     // per goroutine: use MatchFrom
	MaxProcs int      `json:"maxprocs"` // GOMAXPROCS for the batch
	// Trace > 0: the batch runs on a fresh (cold) small-corpus classifier with a trace configuration installed
	// (wildcard license filters, thread-safe Tracer), so the tracing paths are exercised concurrently as well.
	Trace int `json:"trace,omitempty"`
	// Cold: as above but without tracing: state that a classifier fills in lazily on first use is only exposed while
	// no Match has run on it yet.
	Cold bool `json:"cold,omitempty"`
}

func c09TraceConfig(k int) *TraceConfiguration {
	// The tracer must not synchronise the goroutines with each other (an atomic counter or a mutex in here creates
	// happens-before edges that hide races in the code under test from the detector): it does nothing at all.
	tr := func(f string, args ...interface{}) {}
	switch k % 4 {
	case 1:
		return &TraceConfiguration{TracePhases: "", TraceLicenses: "*", Tracer: tr}
	case 2:
		return &TraceConfiguration{TracePhases: "tokenize", TraceLicenses: "License/*,Header/A*", Tracer: tr}
	case 3:
		return &TraceConfiguration{TracePhases: "tokenize,frequency", TraceLicenses: "License/MIT/*,Header/*,Supplement/*", Tracer: tr}
	}
	if k%8 == 0 {
		return &TraceConfiguration{TracePhases: "*", TraceLicenses: "*", Tracer: tr}
	}
	return &TraceConfiguration{TracePhases: "tokenize", TraceLicenses: "License/MIT/license.txt", Tracer: tr}
}

var (
	c09Once   sync.Once
	c09Shared *Classifier
	c09Ref    *Classifier
)

func c09Setup() {
	c09Once.Do(func() {
		c09Shared = buildClassifier(0.8, assets())
		c09Ref = buildClassifier(0.8, assets())
	})
}

var c09WordlessDocs = []synthDoc{{Cat: "License", Name: "Synth-NoticeOnly", Variant: "v.txt", Text: "Copyright 2020 Example Corp\n"}, {Cat: "Header", Name: "Synth-Empty", Variant: "e.txt", Text: ""}}

var c09Longest []int

func c09LongestDocs() []int {
	if c09Longest == nil {
		a := assets()
		idx := make([]int, len(a))
		for i := range idx {
			idx[i] = i
		}
		sort.Slice(idx, func(i, j int) bool {
			if len(a[idx[i]].Content) != len(a[idx[j]].Content) {
				return len(a[idx[i]].Content) > len(a[idx[j]].Content)
			}
			return idx[i] < idx[j]
		})
		c09Longest = idx[:5]
	}
	return c09Longest
}

func c09Gen(t *rapid.T) interface{} {
	c := &c09Case{MaxProcs: lib.PickInt(t, []int{2, 4, 16}, "maxprocs")}
	switch lib.IntN(t, 0, 2, "classifierState") {
	case 0:
		c.Trace = lib.IntN(t, 1, 8, "trace")
	case 1:
		c.Cold = true
	}
	np := lib.IntN(t, 3, 6, "npool")
	for i := 0; i < np; i++ {
		// edited documents are what sends go-diff into its half-match path
		s := genDocSeg(t, 0.8, true)
		if len(s.Edits) == 0 && lib.IntN(t, 0, 3, "forceEdits") > 0 {
			s.Edits = []edit{{Kind: "del", Pos: lib.IntN(t, 0, 5000, "p")}, {Kind: "suboov", Pos: lib.IntN(t, 0, 5000, "p"), Arg: 1}, {Kind: "insoov", Pos: lib.IntN(t, 0, 5000, "p"), Arg: 2},
				{Kind: "del", Pos: lib.IntN(t, 0, 5000, "p")}, {Kind: "delline", Pos: lib.IntN(t, 0, 500, "p")}}
		}
		c.Pool = append(c.Pool, recipe{Segs: []seg{s}})
	}
	if lib.IntN(t, 0, 2, "withUnknownVersionNumber") == 0 {
		// "version" followed by a number no corpus document contains (each batch another one)
		k := lib.IntN(t, 0, len(c.Pool)-1, "versionIn")
		c.Pool[k].Segs = append([]seg{{Kind: "raw", Raw: []byte(fmt.Sprintf("zqproduct version %d.%d.%d\n", lib.IntN(t, 7, 99, "v1"), lib.IntN(t, 11, 99, "v2"), lib.IntN(t, 0, 99, "v3")))}}, c.Pool[k].Segs...)
	}
	if lib.IntN(t, 0, 3, "withVeryLongDocument") == 0 {
		// one of the five longest corpus documents, lightly edited: code paths that depend on the size of the texts
		// (long diffs) run next to the ordinary ones
		c.Pool = append(c.Pool, recipe{Segs: []seg{{Kind: "doc", Doc: c09LongestDocs()[lib.IntN(t, 0, 4, "longDoc")],
			Edits: []edit{{Kind: "suboov", Pos: lib.IntN(t, 0, 9000, "p"), Arg: 1}, {Kind: "del", Pos: lib.IntN(t, 0, 9000, "p")}, {Kind: "insoov", Pos: lib.IntN(t, 0, 9000, "p"), Arg: 2}}}}})
		np++
	}
	if lib.IntN(t, 0, 1, "withHugeInput") == 0 {
		// an input of more than 65536 words (a license behind a very long unrelated block): settings or scratch
		// state that depend on the size of the whole input are written while other calls read them
		c.Pool = append(c.Pool, recipe{Segs: []seg{{Kind: "oov", Words: lib.IntN(t, 66000, 90000, "hugeW"), Lines: lib.IntN(t, 50, 3000, "hugeL")}, genDocSeg(t, 0.8, false)}})
		np++
	}
	g := lib.PickInt(t, []int{2, 4, 8, 16, 32, 64}, "goroutines")
	if (c.Trace > 0 || c.Cold) && g < 8 {
		g = 16
		c.MaxProcs = 16
	}
	per := lib.IntN(t, 2, 6, "perGoroutine")
	for i := 0; i < g; i++ {
		var seq []int
		for j := 0; j < per; j++ {
			seq = append(seq, lib.IntN(t, 0, np-1, "input"))
		}
		c.Seqs = append(c.Seqs, seq)
		c.From = append(c.From, lib.IntN(t, 0, 3, "from") == 0)
	}
	return c
}

func c09Check(ci interface{}) lib.Outcome {
	c := ci.(*c09Case)
	if len(c.Pool) == 0 || len(c.Seqs) == 0 || len(c.Seqs) > 256 {
		return lib.Outcome{Skip: "malformed"}
	}
	c09Setup()
	shared := c09Shared
	var traceSel corpusSel
	cold := c.Trace > 0 || c.Cold
	if cold {
		// cold classifier over a small corpus: the documents of the pool plus a fixed handful
		traceSel = smallFixedCorpus()
		for _, r := range c.Pool {
			traceSel.Docs = append(traceSel.Docs, r.docs()...)
		}
		// custom corpora also hold documents without a single word (a notice only, an empty file)
		traceSel.Synth = c09WordlessDocs
		shared = buildClassifier(0.8, traceSel.files())
		if c.Trace > 0 {
			shared.SetTraceConfiguration(c09TraceConfig(c.Trace))
		}
	}
	inputs := make([][]byte, len(c.Pool))
	ref := make([]string, len(c.Pool))
	fuzzy := 0
	for i, r := range c.Pool {
		inputs[i] = r.build(c09Ref)
		var res Results
		if cold {
			sel := smallFixedCorpus()
			for _, r := range c.Pool {
				sel.Docs = append(sel.Docs, r.docs()...)
			}
			sel.Synth = c09WordlessDocs
			res = classifierFor(0.8, sel).Match(inputs[i]) // sequential reference, same small corpus, no tracing
		} else {
			res = c09Ref.Match(inputs[i]) // sequential reference on a separate instance
		}
		ref[i] = resultString(res)
		for _, m := range res.Matches {
			if m.MatchType != "Copyright" && m.Confidence < 1 {
				fuzzy++
				break
			}
		}
	}
	if c.MaxProcs > 0 {
		defer runtime.GOMAXPROCS(runtime.GOMAXPROCS(c.MaxProcs))
	}
	type bad struct {
		g, step, input int
		got            string
	}
	var mu sync.Mutex
	var first *bad
	// Races on lazily filled state are only observable while the state is cold, and the detector needs the two
	// accesses to be close in time: trace batches are repeated on several fresh classifiers.
	rounds := 1
	if cold {
		rounds = 5
	}
	for round := 0; round < rounds && first == nil; round++ {
		if cold && round > 0 {
			shared = buildClassifier(0.8, traceSel.files())
			if c.Trace > 0 {
				shared.SetTraceConfiguration(c09TraceConfig(c.Trace))
			}
		}
		cur := shared
		var wg sync.WaitGroup
		start := make(chan struct{})
		for g := range c.Seqs {
			wg.Add(1)
			go func(g int) {
				defer wg.Done()
				<-start
				for step, k := range c.Seqs[g] {
					i := ((k % len(inputs)) + len(inputs)) % len(inputs)
					var res Results
					if g < len(c.From) && c.From[g] {
						res, _ = cur.MatchFrom(bytes.NewReader(inputs[i]))
					} else {
						res = cur.Match(inputs[i])
					}
					if s := resultString(res); s != ref[i] {
						mu.Lock()
						if first == nil {
							first = &bad{g, step, i, s}
						}
						mu.Unlock()
					}
				}
			}(g)
		}
		close(start)
		if verdict, report := lib.WaitBatch(&wg, "c09Check.func", 60*time.Second, 20*time.Minute); verdict == "deadlock" {
			return lib.Outcome{Violation: "deadlock: the concurrent batch never finishes: " + report}
		} else if verdict == "slow" {
			return lib.Outcome{Skip: "batch-unfinished-after-20-minutes-but-not-provably-deadlocked"}
		}
	}
	if first != nil {
		msg := fmt.Sprintf("goroutine %d, call %d: concurrent Match(%s) returned\n%s\nbut the same call run alone returns\n%s", first.g, first.step, c.Pool[first.input].describe(), first.got, ref[first.input])
		// The same call once more, alone, on the classifier the batch ran on: if it is still wrong the batch has damaged
		// the classifier's state for good, which no amount of machine load can explain (go-diff's wall-clock deadline,
		// DESIGN 3.4, can make a call under heavy concurrent load return a coarser score once).
		if again := resultString(shared.Match(inputs[first.input])); again != ref[first.input] {
			return lib.Outcome{Violation: "state-corruption: after the batch the classifier keeps returning a wrong result for a call run alone\n" + msg}
		}
		return lib.Outcome{Violation: msg}
	}
	var names []string
	for _, r := range c.Pool {
		names = append(names, r.describe())
	}
	return lib.Outcome{Nontrivial: len(c.Seqs) >= 2 && fuzzy > 0, FP: fmt.Sprintf("%v|%v|%v|%d", names, c.Seqs, c.From, c.MaxProcs),
		Classes: c09Classes(c),
		Extra:   map[string]int{"concurrent_calls": len(c.Seqs) * len(c.Seqs[0]), "pool_inputs_with_fuzzy_match": fuzzy},
		Sample:  map[string]interface{}{"pool": names, "goroutines": len(c.Seqs), "calls_per_goroutine": len(c.Seqs[0]), "gomaxprocs": c.MaxProcs}}
}

func c09Classes(c *c09Case) []string {
	out := []string{fmt.Sprintf("goroutines-%d", len(c.Seqs)), fmt.Sprintf("gomaxprocs-%d", c.MaxProcs)}
	if c.Trace > 0 {
		out = append(out, "tracing-enabled(cold classifier)")
	}
	if c.Cold {
		out = append(out, "cold-classifier")
	}
	for _, r := range c.Pool {
		for _, sg := range r.Segs {
			if sg.Kind == "oov" && sg.Words >= 65536 {
				out = append(out, "input-of-more-than-65536-words")
			}
		}
	}
	return out
}

func TestVerif_C09(t *testing.T) {
	lib.Run(t, lib.Spec{ID: "C09", Part: "concurrent-match",
		Rule: "batches: 2-64 goroutines released by one barrier, each issuing 2-6 Match/MatchFrom calls on a shared full-corpus classifier over a pool of 3-6 (mostly edited) corpus documents and scenario files (half of the batches add an input of 66000-90000 words), GOMAXPROCS in {2,4,16}; two thirds of the batches run (5 rounds, >= 8 goroutines) on fresh (cold) small-corpus classifiers, half of those with a trace configuration (wildcard license filters, thread-safe Tracer) installed; binary built with -race (any report = violation); every result compared with the sequential reference from a separate classifier instance; non-trivial = at least 2 goroutines and a pool input with a fuzzy match (the diff path that touches shared corpus data)",
		New:  func() interface{} { return &c09Case{} }, Gen: c09Gen, Check: c09Check})
}
