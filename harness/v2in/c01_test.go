//go:build verif

package classifier

// C01: a corpus document planted verbatim in out-of-vocabulary context is
// found whole at confidence exactly 1.0 with exact token span and lines.

import (
	"bytes"
	"fmt"
	"sort"
	"strings"
	"testing"
	"unicode/utf8"

	"pgregory.net/rapid"
	"verif/lib"
)

type c01Sep struct {
	Words int `json:"w"`
	Lines int `json:"l"`
	// Chain: the block is preceded by one more unrelated word that is hyphenated over two consecutive line ends
	// ("zqchaina-" / "zqchainb-" / "zqchainc": one word, three lines).
	Chain bool `json:"chain,omitempty"`
}

type c01Copy struct {
	Doc          int  `json:"doc"`   // index into the eligible documents (modulo)
	Tiny         bool `json:"tiny"`  // prefer a document of exactly q or q+1 tokens
	InlineBefore bool `json:"inl_b"` // copy starts on the line of the preceding OOV words
	InlineAfter  bool `json:"inl_a"` // OOV words follow on the copy's last line
	Synth        bool `json:"synth"` // prefer a synthetic (user-added) document
}

type c01Case struct {
	Thr    float64   `json:"thr"`
	Corpus corpusSel `json:"corpus"`
	Copies []c01Copy `json:"copies"`
	Seps   []c01Sep  `json:"seps"` // len(Copies)+1 separators: before, between, after
}

func c01Gen(t *rapid.T) interface{} {
	c := &c01Case{}
	if lib.IntN(t, 0, 9, "corpusKind") < 5 {
		c.Corpus = corpusSel{Full: true}
		c.Thr = fullThreshold(t, 0.7)
	} else {
		c.Thr = genThreshold(t, 0.7)
		n := lib.IntN(t, 2, 10, "corpusSize")
		for i := 0; i < n; i++ {
			c.Corpus.Docs = append(c.Corpus.Docs, lib.IntN(t, 0, len(assets())-1, "corpusDoc"))
		}
	}
	q := refQ(c.Thr)
	ns := lib.IntN(t, 0, 3, "nsynth")
	if c.Corpus.Full && lib.IntN(t, 0, 3, "fullSynth") > 0 {
		ns = 0 // a synthetic document makes the corpus unique, i.e. forces a rebuild of the full corpus
	}
	for i := 0; i < ns; i++ {
		lo, hi := q, 300
		if lib.IntN(t, 0, 1, "synthTiny") == 0 {
			hi = q + 1
		}
		d := genSynthDoc(t, i, lo, hi)
		if hi > q+1 && lib.IntN(t, 0, 5, "schedule") == 0 {
			// a schedule: hundreds of rows that share a boilerplate longer than any q, so that one q-gram sits at
			// hundreds of positions of the document (the longest repeat in the shipped corpus is 155 positions at q=2)
			rows := lib.IntN(t, 200, 700, "scheduleRows")
			var sb strings.Builder
			for r := 0; r < rows; r++ {
				fmt.Fprintf(&sb, "item %d the licensee shall pay to the licensor the fee stated in this schedule for the use of part %d\n", r, r*3+1)
			}
			d.Text = sb.String()
		}
		c.Corpus.Synth = append(c.Corpus.Synth, d)
		if lib.IntN(t, 0, 3, "twin") == 0 {
			// the same text under the same name in another category (a license that is also its own header), in
			// upper case and with other line breaks: token-identical, so a copy is a verbatim copy of both
			tw := d
			for _, cat := range []string{"Header", "License", "Supplement"} {
				if cat != d.Cat {
					tw.Cat = cat
					break
				}
			}
			tw.Variant = "twin.txt"
			tw.Text = strings.ToUpper(strings.Join(strings.Fields(d.Text), "\n"))
			c.Corpus.Synth = append(c.Corpus.Synth, tw)
		}
	}
	if (ns > 0 || !c.Corpus.Full) && lib.IntN(t, 0, 2, "readd") == 0 {
		c.Corpus.ReAdd = true
	}
	nc := 1 + lib.Weighted(t, []int{50, 30, 15, 5}, "ncopies")
	for i := 0; i < nc; i++ {
		c.Copies = append(c.Copies, c01Copy{Doc: lib.IntN(t, 0, 2000, "doc"), Tiny: lib.IntN(t, 0, 7, "tiny") == 0,
			InlineBefore: lib.IntN(t, 0, 4, "inlB") == 0, InlineAfter: lib.IntN(t, 0, 4, "inlA") == 0, Synth: ns > 0 && lib.IntN(t, 0, 1, "useSynth") == 0})
	}
	for i := 0; i <= nc; i++ {
		w := lib.IntN(t, 1, 40, "sepWords")
		if i == 0 && lib.IntN(t, 0, 9, "longPrefix") == 0 {
			w = lib.IntN(t, 41, 2000, "prefixWords")
		}
		c.Seps = append(c.Seps, c01Sep{Words: w, Lines: lib.IntN(t, 1, 5, "sepLines"), Chain: lib.IntN(t, 0, 5, "chain") == 0})
	}
	return c
}

type c01Planted struct {
	file            corpusFile
	off, n          int // token offset and token count
	startLine, endL int
}

// c01Build assembles the input and the expectation; ok=false when nothing is eligible.
func c01Build(c *c01Case, cl *Classifier) (input []byte, planted []c01Planted, want []tokenID, classes []string, ok bool) {
	files := c.Corpus.files()
	var eligible, tiny, synth []corpusFile
	for _, f := range files {
		d := cl.docs[docKey(f)]
		if d == nil || d.size() < refQ(c.Thr) || d.size() == 0 {
			continue
		}
		eligible = append(eligible, f)
		if d.size() <= refQ(c.Thr)+1 {
			tiny = append(tiny, f)
		}
		if strings.HasPrefix(f.Name, "Synth-") {
			synth = append(synth, f)
		}
	}
	if len(eligible) == 0 {
		return nil, nil, nil, nil, false
	}
	var buf bytes.Buffer
	oovBase := 0
	seps := c.Seps
	sepAt := func(i int) c01Sep {
		if i < len(seps) {
			s := seps[i]
			if s.Words < 1 {
				s.Words = 1
			}
			if s.Lines < 1 {
				s.Lines = 1
			}
			return s
		}
		return c01Sep{Words: 3, Lines: 1}
	}
	cls := map[string]bool{}
	for i, cp := range c.Copies {
		s := sepAt(i)
		// two copies never share a physical line (known finding F18): when the previous copy is
		// followed inline and this one is preceded inline, the separator spans at least two lines.
		if i > 0 && c.Copies[i-1].InlineAfter && cp.InlineBefore && openClass("matches-share-a-line") {
			if s.Lines < 2 {
				s.Lines = 2
			}
			if s.Words < 2 {
				s.Words = 2
			}
		}
		block := oovBlock(cl, oovBase, s.Words, s.Lines)
		oovBase += s.Words
		for k := 0; k < s.Words; k++ {
			want = append(want, unknownIndex)
		}
		if s.Chain {
			block = "zqchaina-\nzqchainb-\nzqchainc\n" + block
			want = append(want, unknownIndex)
			cls["hyphen-chain-in-context"] = true
		}
		if cp.InlineBefore {
			block = strings.TrimSuffix(block, "\n") + " "
			cls["inline-before"] = true
		}
		buf.WriteString(block)
		pool := eligible
		if cp.Tiny && len(tiny) > 0 {
			pool = tiny
			cls["doc-of-q-or-q+1-tokens"] = true
		} else if cp.Synth && len(synth) > 0 {
			pool = synth
		}
		f := pool[((cp.Doc%len(pool))+len(pool))%len(pool)]
		if strings.HasPrefix(f.Name, "Synth-") {
			cls["user-added-doc"] = true
		}
		d := cl.docs[docKey(f)]
		if len(d.Matches) > 0 {
			cls["doc-with-notice-lines"] = true
		}
		nlBefore := countNL(buf.Bytes())
		planted = append(planted, c01Planted{file: f, off: len(want), n: d.size(),
			startLine: nlBefore + d.Tokens[0].Line, endL: nlBefore + d.Tokens[d.size()-1].Line})
		want = append(want, idsOnly(d.Tokens)...)
		if cp.InlineAfter {
			// OOV words follow on the copy's last word-bearing line
			buf.Write(bytes.TrimRight(f.Content, " \t\r\n"))
			buf.WriteByte(' ')
			cls["inline-after"] = true
		} else {
			buf.Write(f.Content)
			if !bytes.HasSuffix(f.Content, []byte("\n")) {
				buf.WriteByte('\n')
			}
		}
	}
	s := sepAt(len(c.Copies))
	buf.WriteString(oovBlock(cl, oovBase, s.Words, s.Lines))
	for k := 0; k < s.Words; k++ {
		want = append(want, unknownIndex)
	}
	if len(c.Copies) > 1 {
		cls["multi-copy"] = true
	} else {
		cls["single-copy"] = true
	}
	if sepAt(0).Words > 40 {
		cls["long-prefix"] = true
	}
	if c.Corpus.ReAdd {
		cls["corpus-entry-replaced-before"] = true
	}
	if c.Corpus.Full {
		cls["full-corpus"] = true
	} else {
		cls["small-corpus"] = true
	}
	for k := range cls {
		classes = append(classes, k)
	}
	sort.Strings(classes)
	return buf.Bytes(), planted, want, classes, true
}

func c01Check(ci interface{}) lib.Outcome {
	c := ci.(*c01Case)
	if c.Thr < 0.7 || c.Thr > 1.0 || len(c.Copies) == 0 {
		return lib.Outcome{Skip: "malformed"}
	}
	cl := classifierFor(c.Thr, c.Corpus)
	input, planted, want, classes, ok := c01Build(c, cl)
	if !ok {
		return lib.Outcome{Skip: "no-eligible-document"}
	}
	got := ids(cl, input)
	// premise: the input really is OOV* copy OOV* copy ... at token level. When every copy stands on lines of its own
	// the only legitimate way for this to fail is a document whose text ends in a hyphen (it joins the next word);
	// otherwise a copy that tokenises differently in context than on its own is a violation, not a failed premise.
	ownLines := true
	for i, cp := range c.Copies {
		if cp.InlineBefore || cp.InlineAfter {
			ownLines = false
		}
		if t := bytes.TrimRight(planted[i].file.Content, " \t\r\n"); len(t) > 0 {
			if r, _ := utf8.DecodeLastRune(t); isDashRune(r) {
				ownLines = false
			}
		}
	}
	mismatch := len(got) != len(want)
	for i := 0; !mismatch && i < len(got); i++ {
		mismatch = got[i].ID != want[i]
	}
	if mismatch {
		if ownLines {
			var names []string
			for _, p := range planted {
				names = append(names, p.file.key())
			}
			return lib.Outcome{Violation: fmt.Sprintf("threshold %v: copies of %v, each on lines of its own between blocks of unrelated words, tokenise to %d words in context but to %d words (blocks + documents) on their own", c.Thr, names, len(got), len(want)), Classes: classes}
		}
		return lib.Outcome{Skip: "premise_failed", Classes: classes}
	}
	res := cl.Match(input)
	for k, p := range planted {
		found := false
		for _, m := range res.Matches {
			if m.MatchType == p.file.Cat && m.Name == p.file.Name && m.Confidence == 1.0 &&
				m.StartTokenIndex == p.off && m.EndTokenIndex == p.off+p.n-1 &&
				m.StartLine == p.startLine && m.EndLine == p.endL {
				found = true
				break
			}
		}
		if !found {
			return lib.Outcome{Violation: fmt.Sprintf("copy %d of %s (threshold %v, classifier q=%d, %d tokens) not reported as %s/%s conf=1 tokens=%d-%d lines=%d-%d; Match returned:\n%s",
				k, p.file.key(), c.Thr, cl.q, p.n, p.file.Cat, p.file.Name, p.off, p.off+p.n-1, p.startLine, p.endL, fmtRecs(canon(res))), Classes: classes}
		}
		// a copy of p is also a verbatim copy of every corpus document with the same token sequence
		for _, g := range c.Corpus.files() {
			if g.key() == p.file.key() || !strings.HasPrefix(g.Name, "Synth-") {
				continue
			}
			dg, dp := cl.docs[docKey(g)], cl.docs[docKey(p.file)]
			if dg == nil || dp == nil || dg.size() != dp.size() {
				continue
			}
			same := true
			for i := range dg.Tokens {
				if dg.Tokens[i].ID != dp.Tokens[i].ID {
					same = false
					break
				}
			}
			if !same {
				continue
			}
			twinFound := false
			for _, m := range res.Matches {
				if m.MatchType == g.Cat && m.Name == g.Name && m.Variant == g.Variant && m.Confidence == 1.0 && m.StartTokenIndex == p.off && m.EndTokenIndex == p.off+p.n-1 {
					twinFound = true
				}
			}
			if !twinFound {
				return lib.Outcome{Violation: fmt.Sprintf("copy %d of %s is word for word also a copy of the corpus document %s (same token sequence), which is not reported at conf=1 tokens=%d-%d (threshold %v); Match returned:\n%s",
					k, p.file.key(), g.key(), p.off, p.off+p.n-1, c.Thr, fmtRecs(canon(res))), Classes: append(classes, "token-identical-twin")}
			}
			classes = append(classes, "token-identical-twin")
		}
	}
	var names []string
	for _, p := range planted {
		names = append(names, p.file.key())
	}
	fp := fmt.Sprintf("%v|%s|%v", c.Thr, strings.Join(names, ","), classes)
	return lib.Outcome{Nontrivial: true, FP: fp, Classes: classes,
		Sample: map[string]interface{}{"threshold": c.Thr, "planted": names, "layout": classes, "input_bytes": len(input), "input_head": lib.Preview(input, 120)}}
}

// c01Enum: every embedded document x every menu threshold, once, in a fixed context.
func c01Enum(yield func(interface{}) bool) {
	shard, nshards := lib.EnvInt("VERIF_SHARD", 0), lib.EnvInt("VERIF_NSHARDS", 1)
	ths := thresholdMenu
	if lib.Tier() != "thorough" {
		// the default, and the one threshold at which "similar enough" is an equality test
		ths = []float64{0.8, 1.0}
	}
	idx := 0
	for _, th := range ths {
		for d := range assets() {
			idx++
			if idx%nshards != shard {
				continue
			}
			c := &c01Case{Thr: th, Corpus: corpusSel{Full: true},
				Copies: []c01Copy{{Doc: d, InlineBefore: d%5 == 1, InlineAfter: d%7 == 2}},
				Seps:   []c01Sep{{Words: 3 + d%17, Lines: 1 + d%3}, {Words: 2 + d%11, Lines: 1 + d%2}}}
			if !yield(c) {
				return
			}
			if th == 0.8 {
				// and twice, each copy on lines of its own: whatever the first copy leaves behind in the tokenizer
				// (per-document state) must not change how the second one is read
				c2 := &c01Case{Thr: th, Corpus: corpusSel{Full: true}, Copies: []c01Copy{{Doc: d}, {Doc: d}},
					Seps: []c01Sep{{Words: 2 + d%5, Lines: 1}, {Words: 1 + d%4, Lines: 1 + d%2}, {Words: 2, Lines: 1}}}
				if !yield(c2) {
					return
				}
			}
		}
	}
}

// c01EnumCheck maps Doc to the d-th embedded document itself (not to the eligible list) and
// treats documents shorter than q as out of domain.
func c01EnumCheck(ci interface{}) lib.Outcome {
	c := ci.(*c01Case)
	cl := classifierFor(c.Thr, c.Corpus)
	a := assets()
	f := a[c.Copies[0].Doc%len(a)]
	d := cl.docs[docKey(f)]
	if d == nil || d.size() < refQ(c.Thr) || d.size() == 0 {
		return lib.Outcome{Skip: "document-shorter-than-q"}
	}
	// translate to an index into the eligible list
	k := 0
	for _, g := range a {
		dg := cl.docs[docKey(g)]
		if dg == nil || dg.size() < refQ(c.Thr) || dg.size() == 0 {
			continue
		}
		if g.key() == f.key() {
			break
		}
		k++
	}
	cc := *c
	cc.Copies = append([]c01Copy{}, c.Copies...)
	for i := range cc.Copies {
		cc.Copies[i].Doc = k // every copy of an enumerated case is the same document
	}
	o := c01Check(&cc)
	o.FP = ""
	return o
}

const c01Rule = "1-4 verbatim copies (with repetition) of corpus documents with >= q tokens (embedded, or synthetic user-added ones incl. documents of exactly q / q+1 tokens) separated by blocks of verified out-of-vocabulary words on 1-5 lines (prefix up to 2000 words; copies optionally sharing their first/last line with OOV words); full or small corpus; threshold from {0.7..1.0} or drawn; premise checked at token level; non-trivial = premise holds (>=1 copy, >=1 separator); distinct = distinct (threshold, planted documents, layout classes)"

func TestVerif_C01_Planted(t *testing.T) {
	lib.Run(t, lib.Spec{ID: "C01", Part: "planted", Rule: c01Rule,
		New: func() interface{} { return &c01Case{} }, Gen: c01Gen, Check: c01Check})
}

func TestVerif_C01_EveryDoc(t *testing.T) {
	lib.Run(t, lib.Spec{ID: "C01", Part: "every-document",
		Rule: "every embedded corpus document planted once in a fixed OOV context at thresholds 0.8 and 1.0 (quick) / at each of the 8 menu thresholds (thorough), and planted twice (each copy on lines of its own) at 0.8; documents shorter than q are out of domain",
		New:  func() interface{} { return &c01Case{} }, Enum: c01Enum, Check: c01EnumCheck, Exhaustive: true})
}
