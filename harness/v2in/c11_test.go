//go:build verif

package classifier

// C11: Normalize output lines up with Match positions and matches the same.

import (
	"bytes"
	"fmt"
	"regexp"
	"strings"
	"testing"
	"unicode"

	"pgregory.net/rapid"
	"verif/lib"
)

type c11Case struct {
	Thr    float64   `json:"thr"`
	Corpus corpusSel `json:"corpus"`
	X      recipe    `json:"x"`
	Ts     []xform   `json:"ts,omitempty"`  // optional presentation changes applied first (decoration, case, blank lines ...)
	Pad    int       `json:"pad,omitempty"`
	// Wrap > 0: the whole text is re-wrapped at this width first (every word can end up first on its line).
	Wrap int `json:"wrap,omitempty"` // a first line of exactly Pad ASCII bytes (newline included) in front of X: moves every later byte offset
}

// c11Pad returns one filler line of exactly n bytes (n >= 2), newline included.
func c11Pad(n int) []byte {
	b := make([]byte, 0, n)
	for len(b) < n-1 {
		if len(b)%7 == 6 {
			b = append(b, ' ')
		} else {
			b = append(b, 'q')
		}
	}
	return append(b, '\n')
}

func c11Gen(t *rapid.T) interface{} {
	c := &c11Case{}
	c.Corpus, c.Thr = genCorpusThr(t, 0.7, 7)
	c.X = genRecipe(t, c.Thr)
	if !c.Corpus.Full {
		c.Corpus = smallCorpusAround(t, c.X.docs())
	}
	if lib.IntN(t, 0, 3, "rewrap") == 0 {
		c.Wrap = lib.IntN(t, 20, 110, "wrapWidth")
	}
	if lib.IntN(t, 0, 1, "withXforms") == 0 {
		c.Ts = genXforms(t, []string{"upper", "altcase", "indent", "blankline", "decorate", "trailing", "crlf", "multiblank", "dotdot", "dotdot", "dotdash", "dotdash", "nbsp", "nbsp", "nbsp"}, 2)
	}
	return c
}

var c11Canon = func() map[string]string {
	m := map[string]string{}
	for _, p := range c06Spellings {
		m[p[0]] = p[1]
	}
	m["https"] = "http"
	return m
}()

var c11NoticeRes = []*regexp.Regexp{
	regexp.MustCompile(`(?i)^(.{1,5})?copyright (\(c\) )?(\[yyyy\]|\d{4})[,.]?.*$`),
	regexp.MustCompile(`(?i)^(.{1,5})?copyright \(c\) \[dates of first publication\].*$`),
	regexp.MustCompile(`(?i)^\d{4}-(\d{2}|[a-z]{3})-\d{2}$`),
}

// c11Classify names the known-finding class an input falls into ("" = none), using only the input text.
func c11Classify(x []byte) string {
	ws := words(x, false)
	perLine := map[int][]string{}
	maxLine := 0
	for _, w := range ws {
		if w.Word == eol {
			continue
		}
		// F11: a cleaned token that contains "https" after the https->http rewrite (e.g. http://s...) is rewritten
		// again when the normalized text is tokenised a second time.
		if strings.Contains(strings.ToLower(w.Word), "https") {
			return "c11-https-recreated"
		}
		perLine[w.Line] = append(perLine[w.Line], w.Word)
		if w.Line > maxLine {
			maxLine = w.Line
		}
	}
	for l := 1; l <= maxLine; l++ {
		lw := perLine[l]
		if len(lw) == 0 {
			continue
		}
		// F12: a digit token that ends in '-' as last word of a line is re-joined with the next line on the second pass.
		if strings.HasSuffix(lw[len(lw)-1], "-") {
			return "c11-trailing-hyphen-token"
		}
		// F19: the line is ordinary text for the first pass but its cleaned words read like a notice / date line.
		joined := strings.Join(lw, " ")
		for _, re := range c11NoticeRes {
			if re.MatchString(joined) {
				return "c11-cleaned-line-becomes-notice"
			}
		}
	}
	return ""
}

func c11Check(ci interface{}) lib.Outcome {
	c := ci.(*c11Case)
	if c.Thr < 0.5 || c.Thr > 1 {
		return lib.Outcome{Skip: "malformed"}
	}
	cl := classifierFor(c.Thr, c.Corpus)
	x := c.X.build(cl)
	if c.Wrap >= 10 && c.Wrap <= 1000 {
		var sb strings.Builder
		col := 0
		for _, w := range strings.Fields(string(x)) {
			if col > 0 && col+1+len(w) > c.Wrap {
				sb.WriteByte('\n')
				col = 0
			} else if col > 0 {
				sb.WriteByte(' ')
				col++
			}
			sb.WriteString(w)
			col += len(w)
		}
		sb.WriteByte('\n')
		x = []byte(sb.String())
	}
	if len(c.Ts) > 0 {
		ls, _, _ := applyXforms(splitLines(x), c.Ts)
		x = joinLines(ls)
	}
	desc := fmt.Sprintf("threshold %v, X = %s%s", c.Thr, c.X.describe(), xformNames(c.Ts))
	if c.Wrap >= 10 && c.Wrap <= 1000 {
		desc += fmt.Sprintf(" re-wrapped at %d columns", c.Wrap)
	}
	if c.Pad >= 2 {
		x = append(c11Pad(c.Pad), x...)
		desc += fmt.Sprintf(" behind a filler line of %d bytes", c.Pad)
	}
	if cls := c11Classify(x); cls != "" && openClass(cls) {
		return lib.Outcome{Excluded: cls}
	}
	// Normalize adds words to the dictionary: use a private classifier for it, the shared one only for Match
	nc := buildClassifier(c.Thr, nil)
	n := nc.Normalize(x)
	// the returned text belongs to the caller: a later Normalize on the same classifier must not change it
	keep := append([]byte{}, n...)
	nc.Normalize([]byte("Permission is hereby granted, free of charge, to any person\nobtaining a copy"))
	nc.Normalize(x[:len(x)/2])
	if !bytes.Equal(keep, n) {
		return lib.Outcome{Violation: fmt.Sprintf("%s: the text returned by Normalize changed after later Normalize calls on the same classifier", desc)}
	}
	// (a) k-th line of N holds the words Match attributes to line k of X
	wx := words(x, true)
	perLine := map[int][]string{}
	maxLine := 0
	for _, w := range wx {
		perLine[w.Line] = append(perLine[w.Line], w.Word)
		if w.Line > maxLine {
			maxLine = w.Line
		}
	}
	nlines := strings.Split(string(n), "\n")
	if len(nlines) > maxLine && maxLine > 0 {
		for k := maxLine; k < len(nlines); k++ {
			if strings.TrimSpace(nlines[k]) != "" {
				return lib.Outcome{Violation: fmt.Sprintf("%s: Normalize output has words on line %d but Match attributes no word beyond line %d: %q", desc, k+1, maxLine, nlines[k])}
			}
		}
	}
	for k := 1; k <= maxLine; k++ {
		var got []string
		if k-1 < len(nlines) {
			for _, w := range strings.Fields(nlines[k-1]) {
				w = strings.ToLower(w)
				if r, ok := c11Canon[w]; ok {
					w = r
				}
				got = append(got, w)
			}
		}
		want := perLine[k]
		if strings.Join(got, " ") != strings.Join(want, " ") {
			return lib.Outcome{Violation: fmt.Sprintf("%s: line %d of Normalize output holds %q but Match attributes %q to line %d", desc, k, strings.Join(got, " "), strings.Join(want, " "), k)}
		}
	}
	// (b) Match(N) == Match(X) for licenses
	rx, rn := cl.Match(x), cl.Match(n)
	lx, ln := licensesOnly(canon(rx)), licensesOnly(canon(rn))
	if !equalRecs(lx, ln) {
		return lib.Outcome{Violation: fmt.Sprintf("%s: Match(Normalize(X)) differs from Match(X)\nMatch(X):\n%sMatch(Normalize(X)):\n%s", desc, fmtRecs(lx), fmtRecs(ln))}
	}
	if len(lx) > 0 && rx.TotalInputLines != rn.TotalInputLines {
		return lib.Outcome{Violation: fmt.Sprintf("%s: TotalInputLines %d for X but %d for Normalize(X)", desc, rx.TotalInputLines, rn.TotalInputLines)}
	}
	classes := recipeClasses(c.X)
	if len(wx) > 0 && wx[0].Line > 1 {
		classes = append(classes, "leading-wordless-lines")
	}
	o := lib.Outcome{Classes: classes, Nontrivial: len(lx) > 0 && string(n) != string(x)}
	if o.Nontrivial {
		o.FP = desc
		o.Sample = map[string]interface{}{"case": desc, "normalized_head": lib.Preview(n, 120), "licenses": fmtRecs(lx)}
	}
	return o
}

func xformNames(ts []xform) string {
	if len(ts) == 0 {
		return ""
	}
	var k []string
	for _, t := range ts {
		k = append(k, t.Kind)
	}
	return " after " + strings.Join(k, "+")
}

// c11Enum: every embedded document and every scenario file, as is.
func c11Enum(yield func(interface{}) bool) {
	shard, nshards := lib.EnvInt("VERIF_SHARD", 0), lib.EnvInt("VERIF_NSHARDS", 1)
	idx := 0
	for d := range assets() {
		idx++
		if idx%nshards != shard {
			continue
		}
		if !yield(&c11Case{Thr: 0.8, Corpus: corpusSel{Full: true}, X: recipe{Segs: []seg{{Kind: "doc", Doc: d}}}}) {
			return
		}
	}
	for k := range scenarios() {
		idx++
		if idx%nshards != shard {
			continue
		}
		if !yield(&c11Case{Thr: 0.8, Corpus: corpusSel{Full: true}, X: recipe{Segs: []seg{{Kind: "scen", Doc: k}}}}) {
			return
		}
	}
}

// c11NonASCIIDocs: corpus documents that contain letters outside ASCII.
func c11NonASCIIDocs() []int {
	var out []int
	for d, f := range assets() {
		for _, r := range string(f.Content) {
			if r >= 0x80 && unicode.IsLetter(r) {
				out = append(out, d)
				break
			}
		}
	}
	return out
}

// c11EnumOffsets: every corpus document with non-ASCII letters behind filler lines of varying byte length, so that
// each multi-byte character falls on every offset relative to any fixed-size read (stride 1 in the thorough tier).
func c11EnumOffsets(yield func(interface{}) bool) {
	shard, nshards := lib.EnvInt("VERIF_SHARD", 0), lib.EnvInt("VERIF_NSHARDS", 1)
	stride := 4
	span := 1024
	if lib.Tier() == "thorough" {
		stride, span = 1, 4096
	}
	off := lib.EnvInt("VERIF_SEED", 1) % stride
	idx := 0
	for _, d := range c11NonASCIIDocs() {
		if len(assets()[d].Content) > 30000 {
			continue
		}
		for pad := 2 + off; pad < span+2; pad += stride {
			idx++
			if idx%nshards != shard {
				continue
			}
			if !yield(&c11Case{Thr: 0.8, Corpus: corpusSel{Docs: []int{d}}, X: recipe{Segs: []seg{{Kind: "doc", Doc: d}}}, Pad: pad}) {
				return
			}
		}
	}
}

func TestVerif_C11(t *testing.T) {
	lib.Run(t, lib.Spec{ID: "C11", Part: "generated",
		Rule: "X = generated license-bearing input (documents in context, scenario files, edited / truncated / concatenated texts), optionally after 1-2 presentation changes (decoration, case, indentation, blank lines, CRLF, doubled period after numbers); oracle (a): the k-th line of Normalize(X), lower-cased and mapped through an independent copy of the spelling table, equals the words Match attributes to line k; (b): licenses of Match(Normalize(X)) == Match(X) incl. token spans, lines and TotalInputLines; inputs in an open known-finding class (F11 https, F12 trailing-hyphen digit token) are excluded and counted; non-trivial = X has a license match and Normalize(X) != X",
		New:  func() interface{} { return &c11Case{} }, Gen: c11Gen, Check: c11Check})
}

func TestVerif_C11_EveryDoc(t *testing.T) {
	lib.Run(t, lib.Spec{ID: "C11", Part: "every-document",
		Rule: "every embedded corpus document and every scenario file, unmodified, full corpus at 0.8",
		New:  func() interface{} { return &c11Case{} }, Enum: c11Enum, Exhaustive: true,
		Check: func(c interface{}) lib.Outcome { o := c11Check(c); o.FP = ""; return o }})
}

func TestVerif_C11_Offsets(t *testing.T) {
	lib.Run(t, lib.Spec{ID: "C11", Part: "non-ascii-offset-sweep",
		Rule: "every corpus document (up to 30 KB) that contains letters outside ASCII, behind a filler line of p bytes for p over a window of 1024 (quick, stride 4 rotated by VERIF_SEED) or 4096 (thorough, stride 1) byte offsets; corpus = that document; same oracles as the generated part; non-trivial = the document is still matched",
		New:  func() interface{} { return &c11Case{} }, Enum: c11EnumOffsets, Exhaustive: true,
		Check: func(c interface{}) lib.Outcome { o := c11Check(c); o.FP = ""; return o }})
}
