//go:build verif

package classifier

// Shared white-box helpers for the v2 property harnesses (DESIGN.md section 3).

import (
	"bytes"
	"encoding/json"
	"fmt"
	"io/ioutil"
	"os"
	"path/filepath"
	"sort"
	"strings"
	"sync"

	"pgregory.net/rapid"
	"verif/lib"
)

// ---------------------------------------------------------------- corpus files

type corpusFile struct {
	Cat, Name, Variant string
	Content            []byte
}

func (f corpusFile) key() string { return f.Cat + "/" + f.Name + "/" + f.Variant }

var (
	assetsOnce sync.Once
	assetFiles []corpusFile
	scenOnce   sync.Once
	scenFiles  [][]byte
	scenNames  []string
)

func assetsDir() string { return filepath.Join(lib.Repo(), "v2", "assets") }

// assets returns every Category/Name/Variant file below v2/assets, sorted by path.
func assets() []corpusFile {
	assetsOnce.Do(func() {
		root := assetsDir()
		var paths []string
		filepath.Walk(root, func(p string, info os.FileInfo, err error) error {
			if err == nil && !info.IsDir() && strings.HasSuffix(p, ".txt") {
				paths = append(paths, p)
			}
			return nil
		})
		sort.Strings(paths)
		for _, p := range paths {
			rel, _ := filepath.Rel(root, p)
			seg := strings.Split(rel, string(os.PathSeparator))
			if len(seg) != 3 {
				continue
			}
			b, err := ioutil.ReadFile(p)
			if err != nil {
				panic(err)
			}
			assetFiles = append(assetFiles, corpusFile{seg[0], seg[1], seg[2], b})
		}
		if len(assetFiles) < 100 {
			panic(fmt.Sprintf("only %d corpus files found under %s", len(assetFiles), root))
		}
	})
	return assetFiles
}

// scenarios returns the payload (bytes after the EXPECTED: line) of every scenario file.
func scenarios() [][]byte {
	scenOnce.Do(func() {
		root := filepath.Join(lib.Repo(), "v2", "scenarios")
		var paths []string
		filepath.Walk(root, func(p string, info os.FileInfo, err error) error {
			if err == nil && !info.IsDir() && !strings.HasSuffix(p, "md") {
				paths = append(paths, p)
			}
			return nil
		})
		sort.Strings(paths)
		for _, p := range paths {
			b, err := ioutil.ReadFile(p)
			if err != nil {
				panic(err)
			}
			i := bytes.Index(b, []byte("EXPECTED:"))
			if i < 0 {
				continue
			}
			j := bytes.IndexByte(b[i:], '\n')
			if j < 0 {
				continue
			}
			scenFiles = append(scenFiles, b[i+j+1:])
			scenNames = append(scenNames, filepath.Base(p))
		}
	})
	return scenFiles
}

// ---------------------------------------------------------------- classifiers

// synthDoc is a generated "user-added" corpus document.
type synthDoc struct {
	Cat     string `json:"cat"`
	Name    string `json:"name"`
	Variant string `json:"variant"`
	Text    string `json:"text"`
}

// corpusSel describes a corpus: the full embedded one, or a subset plus synthetic documents.
type corpusSel struct {
	Full  bool       `json:"full"`
	Docs  []int      `json:"docs,omitempty"` // indices into assets()
	Synth []synthDoc `json:"synth,omitempty"`
	// ReAdd: every synthetic document is first added with other content under the same category/name/variant and
	// then added again with its real content (a corpus entry that was replaced).
	ReAdd bool `json:"readd,omitempty"`
}

func (s corpusSel) files() []corpusFile {
	var out []corpusFile
	if s.Full {
		out = append(out, assets()...)
	} else {
		seen := map[int]bool{}
		a := assets()
		for _, i := range s.Docs {
			i = ((i % len(a)) + len(a)) % len(a)
			if !seen[i] {
				seen[i] = true
				out = append(out, a[i])
			}
		}
	}
	seenKey := map[string]bool{}
	for _, f := range out {
		seenKey[f.key()] = true
	}
	for _, d := range s.Synth {
		f := corpusFile{d.Cat, d.Name, d.Variant, []byte(d.Text)}
		if seenKey[f.key()] {
			continue
		}
		seenKey[f.key()] = true
		out = append(out, f)
	}
	return out
}

// olderRevision: what a replaced corpus entry held before: some words dropped, a sentence in front.
func olderRevision(content []byte) []byte {
	w := strings.Fields(string(content))
	var kept []string
	for i, x := range w {
		if i%7 != 3 {
			kept = append(kept, x)
		}
		if i%12 == 11 {
			kept = append(kept, "\n")
		}
	}
	return []byte("an earlier revision of this entry alpha bravo charlie delta echo foxtrot golf hotel india juliet\n" + strings.Join(kept, " ") + "\n")
}

func buildClassifier(th float64, files []corpusFile) *Classifier {
	c := NewClassifier(th)
	for _, f := range files {
		c.AddContent(f.Cat, f.Name, f.Variant, f.Content)
	}
	return c
}

var (
	clsMu    sync.Mutex
	clsCache = map[string]*Classifier{}
	clsOrder []string
	clsFull  []string
)

// classifierFor returns a (per process cached) classifier; callers must only Match against it.
func classifierFor(th float64, sel corpusSel) *Classifier {
	kb, _ := json.Marshal(sel)
	key := fmt.Sprintf("%v|%s", th, kb)
	clsMu.Lock()
	defer clsMu.Unlock()
	if c, ok := clsCache[key]; ok {
		return c
	}
	c := NewClassifier(th)
	for _, f := range sel.files() {
		if sel.ReAdd && (strings.HasPrefix(f.Name, "Synth-") || !sel.Full) {
			c.AddContent(f.Cat, f.Name, f.Variant, olderRevision(f.Content))
		}
		c.AddContent(f.Cat, f.Name, f.Variant, f.Content)
	}
	clsCache[key] = c
	if sel.Full {
		// full-corpus classifiers are big (about 70 MB): keep only a few
		clsFull = append(clsFull, key)
		if len(clsFull) > 2 {
			delete(clsCache, clsFull[0])
			clsFull = clsFull[1:]
		}
		return c
	}
	clsOrder = append(clsOrder, key)
	if len(clsOrder) > 6 {
		delete(clsCache, clsOrder[0])
		clsOrder = clsOrder[1:]
	}
	return c
}

// privateClassifier builds a classifier nobody else uses (for cases that call Normalize, which adds to the dictionary).
func privateClassifier(th float64, sel corpusSel) *Classifier {
	c := NewClassifier(th)
	for _, f := range sel.files() {
		if sel.ReAdd && (strings.HasPrefix(f.Name, "Synth-") || !sel.Full) {
			c.AddContent(f.Cat, f.Name, f.Variant, olderRevision(f.Content))
		}
		c.AddContent(f.Cat, f.Name, f.Variant, f.Content)
	}
	return c
}

// fullThreshold draws a threshold for a full-corpus case. Building the 431-document corpus costs
// 0.6 s and 70 MB, so each shard process works with two thresholds only: the default 0.8 and one
// menu value determined by its shard number (all menu values are covered across the shards).
func fullThreshold(t *rapid.T, lo float64) float64 {
	var menu []float64
	for _, x := range thresholdMenu {
		if x >= lo {
			menu = append(menu, x)
		}
	}
	home := menu[lib.EnvInt("VERIF_SHARD", 0)%len(menu)]
	if lo <= 0.8 && lib.IntN(t, 0, 1, "thrDefault") == 0 {
		return 0.8
	}
	return home
}

func docKey(f corpusFile) string {
	return fmt.Sprintf("%s%c%s%c%s", f.Cat, os.PathSeparator, f.Name, os.PathSeparator, f.Variant)
}

// ---------------------------------------------------------------- tokens

// ids tokenises data exactly as Match does (read-only dictionary lookup).
func ids(c *Classifier, data []byte) []indexedToken {
	d, err := tokenizeStream(bytes.NewReader(data), true, c.dict, false)
	if err != nil {
		panic(err)
	}
	return d.Tokens
}

type wordTok struct {
	Word string
	Line int
}

// words tokenises data with a scratch dictionary and returns the words with their lines.
func words(data []byte, normalize bool) []wordTok {
	dict := newDictionary()
	d, err := tokenizeStream(bytes.NewReader(data), normalize, dict, true)
	if err != nil {
		panic(err)
	}
	out := make([]wordTok, 0, len(d.Tokens))
	for _, t := range d.Tokens {
		out = append(out, wordTok{dict.getWord(t.ID), t.Line})
	}
	return out
}

func idsOnly(ts []indexedToken) []tokenID {
	out := make([]tokenID, len(ts))
	for i, t := range ts {
		out[i] = t.ID
	}
	return out
}

// ---------------------------------------------------------------- out-of-vocabulary words

const oovLetters = "bcdfgjkvwxz"

// letters of two to four bytes; some change their byte length under case mapping, and the second row holds letters
// whose code point ends in the byte of a character the tokenizer treats specially (LF, CR, TAB, blank, '-', '&', '(',
// ')', '.', ':'): code that narrows a rune to a byte before comparing confuses them
var oovNonASCII = []string{"\u00e9", "\u00df", "\u03a9", "\u4e2d", "\u0130", "\u01c5", "\u023a", "\u212a", "\U0001d400", "\uff15", "e\u0301", "\ufb01",
	"\u010a", "\u4e0a", "\u010d", "\u0109", "\u0120", "\u4e20", "\u012d", "\u0126", "\u0128", "\u0129", "\u012e", "\u013a", "a\u030a"}

// oovWord returns the k-th manufactured out-of-vocabulary word, verified against c's dictionary.
func oovWord(c *Classifier, k int) string {
	if k < 0 {
		k = -k
	}
	var sb strings.Builder
	sb.WriteString("zq")
	if k%4 == 3 {
		// every fourth manufactured word carries a letter outside ASCII (two to four bytes long; some change their
		// byte length under case mapping), so that context text exercises rune / byte distinctions as well
		sb.WriteString(oovNonASCII[(k/4)%len(oovNonASCII)])
	}
	n := k
	for i := 0; i < 4 || n > 0; i++ {
		sb.WriteByte(oovLetters[n%len(oovLetters)])
		n /= len(oovLetters)
	}
	w := sb.String()
	for c != nil && c.dict.getIndex(w) != unknownIndex {
		w += "q"
	}
	return w
}

// oovBlock builds nwords OOV words spread over nlines lines (each line non-empty), ending in a newline.
func oovBlock(c *Classifier, base, nwords, nlines int) string {
	if nwords <= 0 {
		return ""
	}
	if nlines < 1 {
		nlines = 1
	}
	if nlines > nwords {
		nlines = nwords
	}
	var sb strings.Builder
	per := nwords / nlines
	extra := nwords % nlines
	k := 0
	for l := 0; l < nlines; l++ {
		n := per
		if l < extra {
			n++
		}
		for j := 0; j < n; j++ {
			if j > 0 {
				sb.WriteByte(' ')
			}
			sb.WriteString(oovWord(c, base+k))
			k++
		}
		sb.WriteByte('\n')
	}
	return sb.String()
}

// ---------------------------------------------------------------- canonical results

type mrec struct {
	Type    string  `json:"type"`
	Name    string  `json:"name"`
	Variant string  `json:"variant"`
	Conf    float64 `json:"conf"`
	SL      int     `json:"sl"`
	EL      int     `json:"el"`
	ST      int     `json:"st"`
	ET      int     `json:"et"`
}

func recOf(m *Match) mrec {
	return mrec{m.MatchType, m.Name, m.Variant, m.Confidence, m.StartLine, m.EndLine, m.StartTokenIndex, m.EndTokenIndex}
}

func rawList(r Results) []mrec {
	out := make([]mrec, 0, len(r.Matches))
	for _, m := range r.Matches {
		out = append(out, recOf(m))
	}
	return out
}

// canon orders the matches totally: the library's own order (confidence desc, start asc, end desc)
// refined by (type, name, variant, lines) for ties, whose relative order is the subject of C04 only.
func canon(r Results) []mrec {
	return canonSort(rawList(r))
}

func canonSort(out []mrec) []mrec {
	sort.SliceStable(out, func(i, j int) bool {
		a, b := out[i], out[j]
		if a.Conf != b.Conf {
			return a.Conf > b.Conf
		}
		if a.ST != b.ST {
			return a.ST < b.ST
		}
		if a.ET != b.ET {
			return a.ET > b.ET
		}
		if a.Type != b.Type {
			return a.Type < b.Type
		}
		if a.Name != b.Name {
			return a.Name < b.Name
		}
		if a.Variant != b.Variant {
			return a.Variant < b.Variant
		}
		if a.SL != b.SL {
			return a.SL < b.SL
		}
		return a.EL < b.EL
	})
	return out
}

func licensesOnly(in []mrec) []mrec {
	out := []mrec{}
	for _, m := range in {
		if m.Type != "Copyright" {
			out = append(out, m)
		}
	}
	return out
}

func fmtRecs(in []mrec) string {
	var sb strings.Builder
	for _, m := range in {
		fmt.Fprintf(&sb, "  %s/%s/%s conf=%v lines=%d-%d tokens=%d-%d\n", m.Type, m.Name, m.Variant, m.Conf, m.SL, m.EL, m.ST, m.ET)
	}
	if len(in) == 0 {
		sb.WriteString("  (none)\n")
	}
	return sb.String()
}

// shift returns the records moved by dTok tokens and dLine lines.
func shift(in []mrec, dTok, dLine int) []mrec {
	out := make([]mrec, len(in))
	for i, m := range in {
		m.SL += dLine
		m.EL += dLine
		if m.Type != "Copyright" {
			m.ST += dTok
			m.ET += dTok
		}
		out[i] = m
	}
	return canonSort(out)
}

func equalRecs(a, b []mrec) bool {
	if len(a) != len(b) {
		return false
	}
	for i := range a {
		if a[i] != b[i] {
			return false
		}
	}
	return true
}

// sharesLine reports whether two different license matches touch a common physical line
// (known finding F18: overlap resolution is line granular).
func sharesLine(in []mrec) bool {
	l := licensesOnly(in)
	for i := range l {
		for j := i + 1; j < len(l); j++ {
			if l[i].SL <= l[j].EL && l[j].SL <= l[i].EL {
				return true
			}
		}
	}
	return false
}

// ---------------------------------------------------------------- editable text

// textDoc is a text broken into lines of whitespace separated words.
type textDoc struct {
	Lines [][]string
}

func parseText(b []byte) *textDoc {
	d := &textDoc{}
	for _, l := range strings.Split(string(b), "\n") {
		d.Lines = append(d.Lines, strings.Fields(l))
	}
	return d
}

func (d *textDoc) nwords() int {
	n := 0
	for _, l := range d.Lines {
		n += len(l)
	}
	return n
}

// locate maps a word index to (line, column).
func (d *textDoc) locate(pos int) (int, int) {
	for li, l := range d.Lines {
		if pos < len(l) {
			return li, pos
		}
		pos -= len(l)
	}
	return -1, -1
}

func (d *textDoc) render() []byte {
	var sb bytes.Buffer
	for i, l := range d.Lines {
		sb.WriteString(strings.Join(l, " "))
		if i < len(d.Lines)-1 {
			sb.WriteByte('\n')
		}
	}
	return sb.Bytes()
}

// edit is one word-level modification of a text.
type edit struct {
	Kind string `json:"k"` // del | delrun (Arg%10+2 consecutive words) | dellong (Arg%30+17 words) | suboov | subvoc | insoov | insrun (Arg%25+17 OOV words) | dupword (the word is written twice) | delline | dupline
	Pos  int    `json:"p"` // word index (or line index for line edits), taken modulo the current size
	Arg  int    `json:"a"`
}

var editKinds = []string{"del", "del", "suboov", "suboov", "suboov", "subvoc", "insoov", "insoov", "delline", "dupline", "delrun", "dupword", "dupword", "insrun", "dellong"}

func applyEdits(c *Classifier, b []byte, edits []edit, truncHead, truncTail int) []byte {
	d := parseText(b)
	for _, e := range edits {
		n := d.nwords()
		if n == 0 {
			break
		}
		switch e.Kind {
		case "del", "suboov", "subvoc", "insoov", "dupword", "insrun":
			li, col := d.locate(((e.Pos % n) + n) % n)
			line := d.Lines[li]
			switch e.Kind {
			case "dupword":
				nl := append([]string{}, line[:col+1]...)
				nl = append(nl, line[col])
				nl = append(nl, line[col+1:]...)
				d.Lines[li] = nl
			case "insrun":
				nl := append([]string{}, line[:col]...)
				for k := 0; k < e.Arg%25+17; k++ {
					nl = append(nl, oovWord(c, 5000+(e.Arg+k*7)%3000))
				}
				nl = append(nl, line[col:]...)
				d.Lines[li] = nl
			case "del":
				d.Lines[li] = append(append([]string{}, line[:col]...), line[col+1:]...)
			case "suboov":
				nl := append([]string{}, line...)
				nl[col] = oovWord(c, 5000+e.Arg)
				d.Lines[li] = nl
			case "subvoc":
				oli, ocol := d.locate(((e.Arg % n) + n) % n)
				nl := append([]string{}, line...)
				nl[col] = d.Lines[oli][ocol]
				d.Lines[li] = nl
			case "insoov":
				nl := append([]string{}, line[:col]...)
				nl = append(nl, oovWord(c, 5000+e.Arg))
				nl = append(nl, line[col:]...)
				d.Lines[li] = nl
			}
		case "delrun", "dellong":
			cnt := e.Arg%10 + 2
			if e.Kind == "dellong" {
				cnt = e.Arg%30 + 17
			}
			for k := 0; k < cnt; k++ {
				n := d.nwords()
				if n <= 1 {
					break
				}
				li, col := d.locate(minInt(((e.Pos%n)+n)%n, n-1))
				line := d.Lines[li]
				d.Lines[li] = append(append([]string{}, line[:col]...), line[col+1:]...)
			}
		case "delline":
			k := ((e.Pos % len(d.Lines)) + len(d.Lines)) % len(d.Lines)
			d.Lines = append(append([][]string{}, d.Lines[:k]...), d.Lines[k+1:]...)
			if len(d.Lines) == 0 {
				d.Lines = [][]string{{}}
			}
		case "dupline":
			k := ((e.Pos % len(d.Lines)) + len(d.Lines)) % len(d.Lines)
			nl := append([][]string{}, d.Lines[:k+1]...)
			nl = append(nl, d.Lines[k])
			nl = append(nl, d.Lines[k+1:]...)
			d.Lines = nl
		}
	}
	dropWords := func(n int, fromEnd bool) {
		for n > 0 && d.nwords() > 0 {
			if fromEnd {
				li := len(d.Lines) - 1
				for li >= 0 && len(d.Lines[li]) == 0 {
					li--
				}
				d.Lines[li] = d.Lines[li][:len(d.Lines[li])-1]
			} else {
				li := 0
				for len(d.Lines[li]) == 0 {
					li++
				}
				d.Lines[li] = d.Lines[li][1:]
			}
			n--
		}
	}
	dropWords(truncHead, false)
	dropWords(truncTail, true)
	return d.render()
}

// genEdits draws an edit list whose size is rate*nwords (rate in permille).
func genEdits(t *rapid.T, nwords int, maxPermille int) []edit {
	if nwords == 0 || maxPermille <= 0 {
		return nil
	}
	permille := lib.IntN(t, 0, maxPermille, "editPermille")
	n := nwords * permille / 1000
	if permille > 0 && n == 0 {
		n = 1
	}
	if n > 400 {
		n = 400
	}
	out := make([]edit, 0, n)
	for i := 0; i < n; i++ {
		out = append(out, edit{Kind: lib.PickStr(t, editKinds, "editKind"), Pos: lib.IntN(t, 0, nwords-1, "editPos"), Arg: lib.IntN(t, 0, 3000, "editArg")})
	}
	return out
}

// ---------------------------------------------------------------- thresholds

var thresholdMenu = []float64{0.7, 0.75, 0.8, 0.85, 0.9, 0.95, 0.99, 1.0}

// thresholds for which t/(1-t) has a fractional part of at least .5 (rounding instead of truncating q shows there)
var thresholdOdd = []float64{0.72, 0.78, 0.85, 0.87, 0.92, 0.95}

func genThreshold(t *rapid.T, lo float64) float64 {
	if lib.IntN(t, 0, 9, "thrKind") < 8 {
		var menu []float64
		for _, x := range thresholdMenu {
			if x >= lo {
				menu = append(menu, x)
			}
		}
		// the default threshold is by far the most used configuration
		if lib.IntN(t, 0, 2, "thrDefault") == 0 && lo <= 0.8 {
			return 0.8
		}
		return lib.PickFloat(t, menu, "thr")
	}
	if lo <= 0.72 && lib.Bool(t, "thrOdd") {
		return lib.PickFloat(t, thresholdOdd, "thrOddValue")
	}
	// two decimals keeps the number of distinct full-corpus classifiers per process small
	return float64(lib.IntN(t, int(lo*100), 100, "thrPct")) / 100
}

// genCorpus draws a corpus selection: mostly the full embedded corpus, otherwise a subset plus synthetic documents.
func genCorpus(t *rapid.T, must []int, synthProb int) corpusSel {
	if lib.IntN(t, 0, 9, "corpusKind") < 6 && synthProb == 0 {
		return corpusSel{Full: true}
	}
	n := lib.IntN(t, 3, 25, "corpusSize")
	sel := corpusSel{}
	sel.Docs = append(sel.Docs, must...)
	for i := 0; i < n; i++ {
		sel.Docs = append(sel.Docs, lib.IntN(t, 0, len(assets())-1, "corpusDoc"))
	}
	return sel
}

var synthVocab = []string{"the", "software", "license", "permission", "granted", "copy", "modify", "warranty", "notice", "use",
	"alpha", "bravo", "charlie", "delta", "echo", "foxtrot", "golf", "hotel", "india", "juliet", "kilo", "lima", "mike",
	"november", "oscar", "papa", "quebec", "romeo", "sierra", "tango", "uniform", "victor", "whiskey", "xray", "yankee", "zulu",
	"2.0", "3", "version", "gnu", "lesser", "library", "apache", "bsd"}

// genSynthDoc draws a synthetic corpus document: random words over a mixed vocabulary, random line structure.
func genSynthDoc(t *rapid.T, idx int, minWords, maxWords int) synthDoc {
	n := lib.IntN(t, minWords, maxWords, "synthWords")
	var sb strings.Builder
	for i := 0; i < n; i++ {
		var w string
		if lib.IntN(t, 0, 3, "synthWordKind") == 0 {
			w = fmt.Sprintf("user%sword", strings.Repeat("x", lib.IntN(t, 1, 6, "synthLen")))
		} else {
			w = lib.PickStr(t, synthVocab, "synthWord")
		}
		sb.WriteString(w)
		if i < n-1 {
			if lib.IntN(t, 0, 7, "synthBreak") == 0 {
				sb.WriteByte('\n')
			} else {
				sb.WriteByte(' ')
			}
		}
	}
	cats := []string{"License", "Header", "Supplement", "Custom"}
	return synthDoc{Cat: lib.PickStr(t, cats, "synthCat"), Name: fmt.Sprintf("Synth-%d", idx), Variant: fmt.Sprintf("v%d.txt", lib.IntN(t, 0, 2, "synthVar")), Text: sb.String()}
}

// refQ is the minimum run length implied by a threshold (4 words at 0.8), computed independently of the
// classifier's own q so that a wrong q in the code under test does not silently narrow the checked domain.
func refQ(threshold float64) int {
	if threshold == 1.0 {
		return 10
	}
	q := int(threshold / (1.0 - threshold))
	if q < 1 {
		q = 1
	}
	return q
}

func countNL(b []byte) int { return bytes.Count(b, []byte("\n")) }

func minInt(a, b int) int {
	if a < b {
		return a
	}
	return b
}

// ---------------------------------------------------------------- input recipes

// seg is one segment of a generated input.
type seg struct {
	Kind      string `json:"k"` // doc | scen | oov | raw
	Doc       int    `json:"d,omitempty"`
	Edits     []edit `json:"e,omitempty"`
	TruncHead int    `json:"th,omitempty"`
	TruncTail int    `json:"tt,omitempty"`
	Words     int    `json:"w,omitempty"`
	Lines     int    `json:"l,omitempty"`
	Raw       []byte `json:"raw,omitempty"`
	// EchoHead / EchoTail put a separate heading line (the first n words of the unedited text) before the segment and
	// a footer line (its last n words) after it: a repeated phrase next to an edited copy makes the first candidate
	// range wider than the span that is finally reported.
	EchoHead int `json:"eh,omitempty"`
	EchoTail int `json:"et,omitempty"`
	EchoOff  int `json:"eo,omitempty"` // the phrase starts EchoOff words after the start / ends EchoOff words before the end
}

type recipe struct {
	Segs []seg `json:"segs"`
	// Tail: a last short word without a line break after it (files often end without a final newline, and the last
	// word of an input is flushed by a different piece of code than every other word).
	Tail string `json:"tail,omitempty"`
}

func (r recipe) build(c *Classifier) []byte {
	var buf bytes.Buffer
	for i, s := range r.Segs {
		var b []byte
		switch s.Kind {
		case "doc":
			a := assets()
			orig := a[((s.Doc%len(a))+len(a))%len(a)].Content
			b = withEcho(orig, applyEdits(c, orig, s.Edits, s.TruncHead, s.TruncTail), s.EchoHead, s.EchoTail, s.EchoOff)
		case "scen":
			sc := scenarios()
			orig := sc[((s.Doc%len(sc))+len(sc))%len(sc)]
			b = withEcho(orig, applyEdits(c, orig, s.Edits, s.TruncHead, s.TruncTail), s.EchoHead, s.EchoTail, s.EchoOff)
		case "oov":
			b = []byte(oovBlock(c, 100000+1000*i, s.Words, s.Lines))
		case "raw":
			b = s.Raw
		}
		buf.Write(b)
		if s.Kind != "raw" && len(b) > 0 && b[len(b)-1] != '\n' {
			buf.WriteByte('\n')
		}
	}
	buf.WriteString(r.Tail)
	return buf.Bytes()
}

func withEcho(orig, edited []byte, head, tail, off int) []byte {
	if head <= 0 && tail <= 0 {
		return edited
	}
	w := strings.Fields(string(orig))
	if off < 0 {
		off = 0
	}
	var buf bytes.Buffer
	if head > 0 && len(w) > off {
		buf.WriteString(strings.Join(w[off:minInt(off+head, len(w))], " "))
		buf.WriteString("\n\n")
	}
	buf.Write(edited)
	if tail > 0 && len(w) > 0 {
		if len(edited) > 0 && edited[len(edited)-1] != '\n' {
			buf.WriteByte('\n')
		}
		buf.WriteString("\n")
		e := len(w) - minInt(off, len(w)-1)
		buf.WriteString(strings.Join(w[e-minInt(tail, e):e], " "))
		buf.WriteString("\n")
	}
	return buf.Bytes()
}

func (r recipe) describe() string {
	var parts []string
	for _, s := range r.Segs {
		switch s.Kind {
		case "doc":
			a := assets()
			parts = append(parts, fmt.Sprintf("doc(%s,edits=%d,trunc=%d/%d%s)", a[((s.Doc%len(a))+len(a))%len(a)].key(), len(s.Edits), s.TruncHead, s.TruncTail, echoDesc(s)))
		case "scen":
			parts = append(parts, fmt.Sprintf("scenario(%d,edits=%d,trunc=%d/%d%s)", s.Doc, len(s.Edits), s.TruncHead, s.TruncTail, echoDesc(s)))
		case "oov":
			parts = append(parts, fmt.Sprintf("oov(%dw/%dl)", s.Words, s.Lines))
		case "raw":
			parts = append(parts, fmt.Sprintf("raw(%d bytes)", len(s.Raw)))
		}
	}
	if r.Tail != "" {
		parts = append(parts, fmt.Sprintf("tail(%q, no final newline)", r.Tail))
	}
	return strings.Join(parts, " + ")
}

func echoDesc(s seg) string {
	if s.EchoHead > 0 || s.EchoTail > 0 {
		return fmt.Sprintf(",echo=%d/%d@%d", s.EchoHead, s.EchoTail, s.EchoOff)
	}
	return ""
}

// docs returns the asset indices used by the recipe.
func (r recipe) docs() []int {
	var out []int
	for _, s := range r.Segs {
		if s.Kind == "doc" {
			out = append(out, s.Doc)
		}
	}
	return out
}

// genDocSeg draws a (possibly edited / truncated) corpus document or scenario segment.
func genDocSeg(t *rapid.T, thr float64, allowScen bool) seg {
	s := seg{Kind: "doc"}
	var text []byte
	if allowScen && lib.IntN(t, 0, 5, "useScenario") == 0 {
		s.Kind = "scen"
		s.Doc = lib.IntN(t, 0, len(scenarios())-1, "scenario")
		text = scenarios()[s.Doc]
	} else {
		s.Doc = lib.IntN(t, 0, len(assets())-1, "doc")
		text = assets()[s.Doc].Content
	}
	nw := parseText(text).nwords()
	maxPermille := int(2 * (1 - thr) * 1000)
	if maxPermille < 20 {
		maxPermille = 20
	}
	switch lib.Weighted(t, []int{25, 50, 8, 8, 9}, "segShape") {
	case 4: // boundary case: exactly the error margin (+-1 word) is missing at the head or the tail, nothing else changed
		k := int(float64(nw)*(1-thr)) + lib.IntN(t, -2, 1, "marginDelta")
		if k < 1 {
			k = 1
		}
		if lib.Bool(t, "marginAtHead") {
			s.TruncHead = k
		} else {
			s.TruncTail = k
		}
	case 0: // pristine
	case 1:
		s.Edits = genEdits(t, nw, maxPermille)
	case 2:
		s.TruncHead = lib.IntN(t, 1, 1+nw*maxPermille/2000, "truncHead")
		s.Edits = genEdits(t, nw, maxPermille/4)
	case 3:
		s.TruncTail = lib.IntN(t, 1, 1+nw*maxPermille/2000, "truncTail")
		s.Edits = genEdits(t, nw, maxPermille/4)
	}
	if nw > 40 && lib.IntN(t, 0, 5, "echo") == 0 {
		// a heading / footer line repeating a phrase near the start / end of the text; in the copy one word of that
		// phrase is replaced and a run of words next to it is missing, so that the heading aligns with the copy
		s.EchoOff = lib.IntN(t, 0, 8, "echoOff")
		n := lib.IntN(t, 5, 12, "echoWords")
		run := lib.IntN(t, 2, 8, "echoGap")
		if lib.Bool(t, "echoHead") {
			s.EchoHead = n
			s.Edits = []edit{{Kind: "delrun", Pos: s.EchoOff + n + lib.IntN(t, 1, 4, "echoGapAt"), Arg: run - 2},
				{Kind: "suboov", Pos: s.EchoOff + lib.IntN(t, 0, n-1, "echoSub"), Arg: lib.IntN(t, 0, 3000, "echoArg")}}
		} else {
			s.EchoTail = n
			end := nw - s.EchoOff
			s.Edits = []edit{{Kind: "suboov", Pos: end - 1 - lib.IntN(t, 0, n-1, "echoSub"), Arg: lib.IntN(t, 0, 3000, "echoArg")},
				{Kind: "delrun", Pos: end - n - run - lib.IntN(t, 1, 4, "echoGapAt"), Arg: run - 2}}
		}
		s.TruncHead, s.TruncTail = 0, 0
	}
	return s
}

// genRecipe draws a license-bearing input: one document, a document in OOV context, or a concatenation.
func genRecipe(t *rapid.T, thr float64) recipe {
	var r recipe
	switch lib.Weighted(t, []int{45, 25, 30}, "recipeShape") {
	case 0:
		r.Segs = []seg{genDocSeg(t, thr, true)}
	case 1:
		r.Segs = []seg{{Kind: "oov", Words: lib.IntN(t, 1, 60, "oovW"), Lines: lib.IntN(t, 1, 6, "oovL")}, genDocSeg(t, thr, true),
			{Kind: "oov", Words: lib.IntN(t, 1, 60, "oovW"), Lines: lib.IntN(t, 1, 6, "oovL")}}
	case 2:
		n := lib.IntN(t, 2, 4, "nsegs")
		for i := 0; i < n; i++ {
			if i > 0 && lib.IntN(t, 0, 2, "sep") > 0 {
				r.Segs = append(r.Segs, seg{Kind: "oov", Words: lib.IntN(t, 1, 30, "oovW"), Lines: lib.IntN(t, 1, 4, "oovL")})
			}
			r.Segs = append(r.Segs, genDocSeg(t, thr, false))
		}
	}
	if lib.IntN(t, 0, 5, "hyphenThenNotice") == 0 {
		// an unrelated word hyphenated over a line break, its remainder ending the line, then (after blank or one-word
		// lines) a notice line or a line whose second word looks like a list marker: three traits that are each
		// harmless and meet in the tokenizer's bookkeeping for hyphenated words
		piece := seg{Kind: "raw", Raw: []byte(lib.PickStr(t, []string{
			"zqpre-\nzqfix\nCopyright (c) 2020 Example Corp\n",
			"zqpre-\nzqfix\n\nzqone\nCopyright 2019 Foo Inc.\n",
			"zqpre-\nzqfix\n2019-03-14\n",
			"zqpre-\nzqfix\nzqsection 2. zqfoo zqbar\n",
			"zqpre-\r\nzqfix\r\nCopyright (c) 2020 Example Corp\r\n",
			"Copyright (c) 2020 The zqfoo-\nzqbar Authors\n", // the notice itself is wrapped with a hyphen
			"Copyright (c) 2020 The zqfoo-\nzqbar Authors\n",
			"Copyright (c) 2020 The zqfoo-\nzqbar\n",
		}, "hyphenNoticePiece"))}
		if lib.Bool(t, "pieceFirst") {
			r.Segs = append([]seg{piece}, r.Segs...)
		} else {
			r.Segs = append(r.Segs, piece)
		}
	}
	if lib.IntN(t, 0, 4, "tail") == 0 {
		r.Tail = lib.PickStr(t, []string{"a", "2", "b", "x", "end", "v2", "it", "\u00e9", "License"}, "tailWord")
	}
	return r
}

// recipeClasses labels a recipe for the distribution histogram.
func recipeClasses(r recipe) []string {
	cls := map[string]bool{}
	nd := 0
	for _, s := range r.Segs {
		switch s.Kind {
		case "doc", "scen":
			nd++
			if s.Kind == "scen" {
				cls["scenario-file"] = true
			}
			if len(s.Edits) > 0 {
				cls["edited"] = true
			}
			if s.TruncHead > 0 {
				cls["truncated-head"] = true
			}
			if s.TruncTail > 0 {
				cls["truncated-tail"] = true
			}
			if r.Tail != "" {
				cls["no-final-newline"] = true
			}
			if s.EchoHead > 0 || s.EchoTail > 0 {
				cls["echoed-heading-or-footer"] = true
			}
		case "oov":
			cls["oov-context"] = true
		}
	}
	if nd > 1 {
		cls["concatenation"] = true
	}
	var out []string
	for k := range cls {
		out = append(out, k)
	}
	sort.Strings(out)
	return out
}

// corpusForRecipe: full corpus (threshold from the shard's menu) or a small corpus containing the documents used.
func genCorpusThr(t *rapid.T, lo float64, fullWeight int) (corpusSel, float64) {
	if lib.IntN(t, 0, 9, "corpusKind") < fullWeight {
		return corpusSel{Full: true}, fullThreshold(t, lo)
	}
	return corpusSel{}, genThreshold(t, lo) // documents are filled in by the caller
}

func smallCorpusAround(t *rapid.T, must []int) corpusSel {
	sel := corpusSel{Docs: append([]int{}, must...), ReAdd: lib.IntN(t, 0, 3, "replacedEntries") == 0}
	n := lib.IntN(t, 1, 8, "corpusExtra")
	for i := 0; i < n; i++ {
		sel.Docs = append(sel.Docs, lib.IntN(t, 0, len(assets())-1, "corpusDoc"))
	}
	return sel
}
