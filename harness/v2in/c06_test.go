//go:build verif

package classifier

// C06: notices, ISO dates, list markers, hyphenation, interchangeable spellings and
// http/https do not change which licenses are reported (names, confidences, token
// spans); every inserted copyright notice is reported as a Copyright match on its line.

import (
	"bytes"
	"fmt"
	"os"
	"regexp"
	"sort"
	"strings"
	"testing"
	"unicode"

	"pgregory.net/rapid"
	"verif/lib"
)

type c06Op struct {
	Kind string `json:"k"` // notice | date | marker | split | spelling | url
	Arg  int    `json:"a"`
	Pos  []int  `json:"p"`
	M    string `json:"m,omitempty"` // marker text for Kind == marker
}

type c06Case struct {
	Thr    float64   `json:"thr"`
	Corpus corpusSel `json:"corpus"`
	X      recipe    `json:"x"`
	Ops    []c06Op   `json:"ops"`
	// Used: the classifier is a private one on which Normalize has been called for the transformed text before the
	// comparison (a classifier with a call history; small corpora only).
	Used bool `json:"used,omitempty"`
	// CRLF: both the original and the transformed text are written with CR LF line endings (the ignorable lines and
	// markers then end in a carriage return like every other line).
	CRLF bool `json:"crlf,omitempty"`
}

// Templates the code recognises as notices. "copyright [yyyy] ..." and "copyright (c) [dates of first publication]"
// look recognisable from the regular expressions but are not: the tokenizer never starts a word at '[', so the
// bracketed alternatives cannot match (dead alternatives, e.g. the Apache-2.0 boilerplate line stays ordinary text).
// They are therefore not "copyright notices" in the sense of the property and are not used.
var c06Notices = []string{"Copyright 2019 Foo", "Copyright (c) 2001, 2002 Foo Inc.", "// Copyright © 2020 X", "(c) Copyright 1999 Y",
	" * Copyright 2015-2017 The Authors. All rights reserved.", "# COPYRIGHT 2003, Example Corp", "Copyright 1987, 1988 by Somebody", ";; copyright (C) 2010. Someone Else",
	// up to five characters in front of the word, counted in characters, not bytes
	"版权 Copyright (c) 2020 Example Co", "Авт. Copyright 2020, Example", "Ôter Copyright 2020 Example"}
var c06Dates = []string{"2019-03-14", "2019-mar-14", "1999-12-31", "2001-JAN-01"}
var c06Markers = []string{"1.", "12.", "a.", "iv.", "xiii.", "3.1.", "1.2.3.", "1)", "b:", "2:", "r.", "ix:", "10)"}
var c06LetterParen = []string{"a)", "c)", "iv)"} // known finding F13: <letter>) is deliberately not stripped

// independent copy of the package's interchangeable single-word spellings (left is rewritten to right)
var c06Spellings = [][2]string{{"analyse", "analyze"}, {"artefact", "artifact"}, {"authorisation", "authorization"}, {"authorised", "authorized"},
	{"calibre", "caliber"}, {"cancelled", "canceled"}, {"capitalisations", "capitalizations"}, {"catalogue", "catalog"}, {"categorise", "categorize"},
	{"centre", "center"}, {"emphasised", "emphasized"}, {"favour", "favor"}, {"favourite", "favorite"}, {"fulfil", "fulfill"}, {"fulfilment", "fulfillment"},
	{"initialise", "initialize"}, {"judgment", "judgement"}, {"labelling", "labeling"}, {"labour", "labor"}, {"licence", "license"}, {"maximise", "maximize"},
	{"modelled", "modeled"}, {"modelling", "modeling"}, {"offence", "offense"}, {"optimise", "optimize"}, {"organisation", "organization"}, {"organise", "organize"},
	{"practise", "practice"}, {"programme", "program"}, {"realise", "realize"}, {"recognise", "recognize"}, {"signalling", "signaling"},
	{"utilisation", "utilization"}, {"whilst", "while"}, {"wilful", "wilfull"}}

var c06Other = func() map[string]string {
	m := map[string]string{}
	for _, p := range c06Spellings {
		m[p[0]] = p[1]
		m[p[1]] = p[0]
	}
	return m
}()

var c06DateLike = regexp.MustCompile(`\d{4}-(\d{2}|[A-Za-z]{3})-\d{2}`)
var c06PlainWord = regexp.MustCompile(`^([^A-Za-z0-9&(]*)([A-Za-z]+)([^A-Za-z0-9]*)$`)

// c06SplitWord: words that may be hyphenated over a line break: plain words and plain numbers of four or more digits
// (years); in a number the tokenizer keeps '-' as part of the token, so only the line-end rule removes the hyphen.
var c06NumericMarker = regexp.MustCompile(`^[0-9]+(\.[0-9]+)*[.)]$`)

var c06SplitWord = regexp.MustCompile(`^([^A-Za-z0-9&(]*)([A-Za-z]+|[0-9]{4,})([^A-Za-z0-9]*)$`)

func openClass(name string) bool {
	for _, c := range strings.Split(os.Getenv("VERIF_OPEN_CLASSES"), ",") {
		if c == name {
			return true
		}
	}
	return false
}

func c06Gen(t *rapid.T) interface{} {
	c := &c06Case{}
	c.Corpus, c.Thr = genCorpusThr(t, 0.7, 6)
	c.X = genRecipe(t, c.Thr)
	if !c.Corpus.Full {
		c.Corpus = smallCorpusAround(t, c.X.docs())
		c.Used = lib.IntN(t, 0, 3, "used") == 0
	}
	c.CRLF = lib.IntN(t, 0, 4, "crlf") == 0
	kinds := []string{"notice", "notice", "date", "marker", "marker", "split", "split", "spelling", "url"}
	n := lib.IntN(t, 1, 3, "nops")
	for i := 0; i < n; i++ {
		op := c06Op{Kind: lib.PickStr(t, kinds, "kind"), Arg: lib.IntN(t, 0, 60, "arg"), Pos: lib.Ints(t, 1, 12, 0, 4000, "pos")}
		if op.Kind == "marker" {
			pool := c06Markers
			if !openClass("c06-letter-paren-marker") {
				// excluded by construction while known finding F13 is open
				pool = append(append([]string{}, c06Markers...), c06LetterParen...)
			}
			op.M = lib.PickStr(t, pool, "marker")
		}
		c.Ops = append(c.Ops, op)
	}
	return c
}

// noticeLike is a deliberately generous, independent predicate for lines the notice logic may treat specially.
func noticeLike(s string) bool {
	return strings.Contains(strings.ToLower(s), "copyright") || c06DateLike.MatchString(s)
}

// endsLikeHeader: generous superset of "header-like" first words (anything ending in . : or )).
func endsLikeHeader(w string) bool {
	w = strings.TrimRightFunc(w, unicode.IsSpace)
	if w == "" {
		return false
	}
	switch w[len(w)-1] {
	case '.', ':', ')':
		return true
	}
	return false
}

type c06Inserted struct {
	lineIdx int // index into ls at the end (resolved later through the marker)
	tag     string
	notice  bool
}

func c06Check(ci interface{}) lib.Outcome {
	c := ci.(*c06Case)
	if c.Thr < 0.5 || c.Thr > 1 || len(c.Ops) == 0 || len(c.Ops) > 12 {
		return lib.Outcome{Skip: "malformed"}
	}
	cl := classifierFor(c.Thr, c.Corpus)
	if c.Used && !c.Corpus.Full {
		cl = privateClassifier(c.Thr, c.Corpus)
	}
	x := c.X.build(cl)
	ls := splitLines(x)
	norig := len(ls)
	applied := map[string]int{}
	restricted := 0
	splitDone := false
	splitBeforeMarker := 0
	// inserted lines are tagged through orig = -2 - k so they can be found again after later insertions
	var inserted []c06Inserted
	for _, op := range c.Ops {
		if len(ls) == 0 {
			break
		}
		fr := frozenLines(ls)
		positions := op.Pos
		if op.Kind == "url" || op.Kind == "spelling" {
			// these only apply where a URL / a listed word occurs: try every line
			positions = make([]int, len(ls))
			for i := range positions {
				positions[i] = i
			}
		}
		for _, p := range positions {
			if len(ls) == 0 {
				break
			}
			i := ((p % len(ls)) + len(ls)) % len(ls)
			switch op.Kind {
			case "notice", "date":
				// insert before line i; never between a hyphen-ended line and its continuation
				if fr[i] && i > 0 && fr[i-1] {
					restricted++
					continue
				}
				var text string
				if op.Kind == "notice" {
					text = c06Notices[(op.Arg+p)%len(c06Notices)]
				} else {
					text = c06Dates[(op.Arg+p)%len(c06Dates)]
				}
				tag := -2 - len(inserted)
				inserted = append(inserted, c06Inserted{tag: text, notice: op.Kind == "notice"})
				nl := append([]tline{}, ls[:i]...)
				nl = append(nl, tline{s: text, eol: "\n", orig: tag})
				nl = append(nl, ls[i:]...)
				ls = nl
				fr = frozenLines(ls)
				applied[op.Kind]++
			case "marker":
				mk := op.M
				if mk == "" {
					mk = c06Markers[(op.Arg+p)%len(c06Markers)]
				}
				if inX := c07MarkersIn(x); len(inX) > 0 && (op.Arg+p)%2 == 0 {
					// a marker that also occurs in the text itself, not at a line start there ("under version 2.",
					// "item 1."): the same word is a marker in one place and a number in another
					// numeric ones only ("2.", "3.1.", "10)"): what else counts as a marker is for the statement's list to say
					if cand := inX[(op.Arg+p)/2%len(inX)]; c06NumericMarker.MatchString(cand) {
						mk = cand
					}
				}
				f := strings.Fields(ls[i].s)
				if fr[i] || ls[i].orig < 0 || noticeLike(ls[i].s) || len(f) == 0 || endsLikeHeader(f[0]) {
					restricted++
					continue
				}
				// the first word must be one the tokenizer starts a token at; decoration before it would separate marker and line start
				r0 := []rune(f[0])[0]
				if !(unicode.IsLetter(r0) || unicode.IsDigit(r0)) {
					restricted++
					continue
				}
				ls[i].s = mk + " " + ls[i].s
				applied["marker "+mk]++
			case "split":
				if fr[i] || ls[i].orig < 0 || noticeLike(ls[i].s) || ls[i].eol == "" {
					restricted++
					continue
				}
				f := strings.Fields(ls[i].s)
				if len(f) < 2 {
					restricted++
					continue
				}
				k := (op.Arg + p) % (len(f) - 1)
				lastWord := (op.Arg+p)%3 == 0
				if lastWord {
					// the last word of the line: its remainder stands alone on the next line and ends at a line break
					k = len(f) - 1
				}
				m := c06SplitWord.FindStringSubmatch(f[k])
				if m == nil || len(m[2]) < 4 || endsLikeHeader(f[k]) || (k == 0 && m[1] != "") {
					restricted++
					continue
				}
				if !lastWord && endsLikeHeader(f[k+1]) && openClass("c06-split-before-marker-like-word") {
					// known finding F28: after the remainder of a split word the tokenizer starts a new line buffer, so a
					// following "2." or "a)" stands at position 0 and is dropped as a list marker. Excluded by construction
					// while the finding is open, and counted.
					restricted++
					splitBeforeMarker++
					continue
				}
				if !lastWord {
					r1 := []rune(f[k+1])[0]
					if !(unicode.IsLetter(r1) || unicode.IsDigit(r1)) {
						restricted++
						continue
					}
				}
				cut := 1 + (op.Arg+p)%(len(m[2])-2)
				first := strings.Join(append(append([]string{}, f[:k]...), m[1]+m[2][:cut]+"-"), " ")
				second := strings.Join(append([]string{m[2][cut:] + m[3]}, f[k+1:]...), " ")
				nl := append([]tline{}, ls[:i]...)
				nl = append(nl, tline{s: first, eol: "\n", orig: ls[i].orig}, tline{s: second, eol: ls[i].eol, orig: -1})
				if lastWord && (op.Arg+p)%2 == 0 {
					// and a notice on the line after the remainder
					text := c06Notices[(op.Arg+p)%len(c06Notices)]
					tag := -2 - len(inserted)
					inserted = append(inserted, c06Inserted{tag: text, notice: true})
					nl = append(nl, tline{s: text, eol: "\n", orig: tag})
					applied["notice"]++
					applied["notice-after-split-remainder"]++
				}
				nl = append(nl, ls[i+1:]...)
				ls = nl
				fr = frozenLines(ls)
				splitDone = true
				applied["split"]++
			case "spelling":
				if fr[i] || ls[i].orig < 0 {
					restricted++
					continue
				}
				f := strings.Fields(ls[i].s)
				done := false
				for k, w := range f {
					m := c06PlainWord.FindStringSubmatch(w)
					if m == nil {
						continue
					}
					if o, ok := c06Other[strings.ToLower(m[2])]; ok {
						f[k] = m[1] + o + m[3]
						done = true
						applied["spelling "+strings.ToLower(m[2])+"->"+o]++
					}
				}
				if done {
					ind := ls[i].s[:len(ls[i].s)-len(strings.TrimLeftFunc(ls[i].s, unicode.IsSpace))]
					ls[i].s = ind + strings.Join(f, " ")
				}
			case "url":
				if fr[i] || ls[i].orig < 0 {
					restricted++
					continue
				}
				s := ls[i].s
				var ns string
				if op.Arg%2 == 0 {
					ns = strings.Replace(s, "http://", "https://", -1)
				} else {
					ns = strings.Replace(s, "https://", "http://", -1)
				}
				if ns != s {
					ls[i].s = ns
					applied["url"]++
				}
			default:
				return lib.Outcome{Skip: "malformed"}
			}
		}
	}
	tx := joinLines(ls)
	if c.CRLF {
		toCRLF := func(b []byte) []byte {
			return bytes.Replace(bytes.Replace(b, []byte("\r\n"), []byte("\n"), -1), []byte("\n"), []byte("\r\n"), -1)
		}
		x, tx = toCRLF(x), toCRLF(tx)
		applied["crlf-line-endings"]++
	}
	var kinds []string
	for k := range applied {
		kinds = append(kinds, k)
	}
	sort.Strings(kinds)
	desc := fmt.Sprintf("threshold %v: [%s] applied to %s", c.Thr, strings.Join(kinds, ", "), c.X.describe())
	if c.Used && !c.Corpus.Full {
		cl.Normalize(tx)
		cl.Normalize(x)
		desc += " (classifier has normalized both texts before)"
	}

	// ---- token level: ids unchanged (lines mapped unless a word was split)
	a, b := ids(cl, x), ids(cl, tx)
	lmap := make([]int, norig+2)
	for i, l := range ls {
		if l.orig >= 0 && l.orig+1 < len(lmap) {
			lmap[l.orig+1] = i + 1
		}
	}
	if len(a) != len(b) {
		k := 0
		for k < len(a) && k < len(b) && a[k].ID == b[k].ID {
			k++
		}
		wa, wb := "(end)", "(end)"
		if k < len(a) {
			wa = cl.dict.getWord(a[k].ID)
		}
		if k < len(b) {
			wb = cl.dict.getWord(b[k].ID)
		}
		return lib.Outcome{Violation: fmt.Sprintf("%s: number of words changed from %d to %d; first difference at word %d: %q vs %q (line %d of the transformed text: %q)",
			desc, len(a), len(b), k, wa, wb, lineOf(b, k), lineText(ls, lineOf(b, k)))}
	}
	for i := range a {
		if a[i].ID != b[i].ID {
			return lib.Outcome{Violation: fmt.Sprintf("%s: word %d changed from %q to %q (line %d of the transformed text: %q)", desc, i, cl.dict.getWord(a[i].ID), cl.dict.getWord(b[i].ID), b[i].Line, lineText(ls, b[i].Line))}
		}
		if !splitDone && lmap[a[i].Line] != b[i].Line {
			return lib.Outcome{Violation: fmt.Sprintf("%s: word %d (%q) moved from line %d (new number %d) to line %d", desc, i, cl.dict.getWord(a[i].ID), a[i].Line, lmap[a[i].Line], b[i].Line)}
		}
	}
	// ---- match level
	ra, rb := cl.Match(x), cl.Match(tx)
	ca, cb := canon(ra), canon(rb)
	if splitDone && (sharesLine(ca) || sharesLine(cb)) && openClass("matches-share-a-line") {
		// a split adds a line; with two matches on one physical line the line-granular overlap filter (known finding F18) can flip
		return lib.Outcome{Excluded: "matches-share-a-line"}
	}
	la, lb := licensesOnly(ca), licensesOnly(cb)
	for i := range la {
		if splitDone {
			la[i].SL, la[i].EL = 0, 0
		} else {
			la[i].SL, la[i].EL = lmap[la[i].SL], lmap[la[i].EL]
		}
	}
	if splitDone {
		for i := range lb {
			lb[i].SL, lb[i].EL = 0, 0
		}
	}
	la, lb = canonSort(la), canonSort(lb)
	if !equalRecs(la, lb) && splitDone && openClass("matches-share-a-line") && c06OnlyCompetingDiffer(la, lb) {
		// The token streams are identical (verified above); after a split only the line numbers differ, and they enter
		// Match through the line-granular overlap filter alone (known finding F18): which of two candidates whose token
		// spans overlap is kept depends on whether their first / last lines coincide. Every match that differs here
		// overlaps a competitor, so this is that mechanism and not a new one.
		return lib.Outcome{Excluded: "matches-share-a-line"}
	}
	if !equalRecs(la, lb) {
		return lib.Outcome{Violation: fmt.Sprintf("%s: reported licenses changed\nbefore (lines mapped):\n%safter:\n%s", desc, fmtRecs(la), fmtRecs(lb))}
	}
	// ---- Copyright pseudo-matches
	excludedInside := 0
	// The property quantifies over license-bearing inputs: when nothing passes the word-frequency
	// prefilter Match returns no matches at all, notices included, so the notice claims are only
	// asserted when at least one license is reported.
	if !splitDone && len(la) > 0 {
		crAfter := map[int]int{}
		for _, m := range cb {
			if m.Type == "Copyright" {
				if m.SL != m.EL || m.Conf != 1.0 {
					return lib.Outcome{Violation: fmt.Sprintf("%s: malformed Copyright entry %+v", desc, m)}
				}
				crAfter[m.SL]++
			}
		}
		allowed := map[int]bool{}
		for _, m := range ca {
			if m.Type == "Copyright" {
				allowed[lmap[m.SL]] = true
			}
		}
		inside := func(line int) bool {
			for _, m := range lb {
				if m.SL <= line && line <= m.EL {
					return true
				}
			}
			return false
		}
		for i, l := range ls {
			if l.orig > -2 {
				continue
			}
			ins := inserted[-2-l.orig]
			line := i + 1
			allowed[line] = true
			if !ins.notice {
				continue
			}
			if inside(line) && openClass("c06-notice-inside-license-span") {
				excludedInside++ // known finding F14: a notice inside the line span of a reported license is absorbed
				continue
			}
			if crAfter[line] != 1 {
				return lib.Outcome{Violation: fmt.Sprintf("%s: inserted notice %q on line %d (required to be reported) is reported %d times as Copyright; matches:\n%s", desc, ins.tag, line, crAfter[line], fmtRecs(cb))}
			}
		}
		var lines []int
		for l := range crAfter {
			lines = append(lines, l)
		}
		sort.Ints(lines)
		for _, l := range lines {
			if !allowed[l] {
				return lib.Outcome{Violation: fmt.Sprintf("%s: Copyright entry on line %d (%q) which holds no notice of the original and no inserted notice", desc, l, lineText(ls, l))}
			}
		}
	}
	classes := []string{}
	for _, k := range kinds {
		if i := strings.IndexByte(k, ' '); i > 0 {
			classes = append(classes, "t-"+k[:i])
		} else {
			classes = append(classes, "t-"+k)
		}
		if strings.HasPrefix(k, "marker ") {
			classes = append(classes, k)
		}
	}
	classes = dedupe(classes)
	if c.Used && !c.Corpus.Full {
		classes = append(classes, "used-classifier")
	}
	o := lib.Outcome{Classes: classes, Nontrivial: len(la) > 0 && len(applied) > 0,
		Extra: map[string]int{"positions_restricted": restricted, "notices_inside_license_span(F14)": excludedInside, "splits_before_marker_like_word(F28)": splitBeforeMarker}}
	if o.Nontrivial {
		o.FP = fmt.Sprintf("%v|%s|%v|%d", c.Thr, c.X.describe(), kinds, len(tx))
		o.Sample = map[string]interface{}{"threshold": c.Thr, "x": c.X.describe(), "applied": applied, "licenses": fmtRecs(lb)}
	}
	return o
}

func dedupe(in []string) []string {
	seen := map[string]bool{}
	var out []string
	for _, s := range in {
		if !seen[s] {
			seen[s] = true
			out = append(out, s)
		}
	}
	sort.Strings(out)
	return out
}

func lineOf(toks []indexedToken, k int) int {
	if k < len(toks) {
		return toks[k].Line
	}
	if len(toks) > 0 {
		return toks[len(toks)-1].Line
	}
	return 0
}

func lineText(ls []tline, line int) string {
	if line >= 1 && line <= len(ls) {
		return ls[line-1].s
	}
	return ""
}

// c06OnlyCompetingDiffer: every match that is in one result but not in the other overlaps, by token span, another
// match of either result (candidates competing for the same words).
func c06OnlyCompetingDiffer(a, b []mrec) bool {
	in := func(r mrec, l []mrec) bool {
		for _, x := range l {
			if x == r {
				return true
			}
		}
		return false
	}
	all := append(append([]mrec{}, a...), b...)
	check := func(r mrec) bool {
		for _, s := range all {
			if s != r && s.ST <= r.ET && r.ST <= s.ET {
				return true
			}
		}
		return false
	}
	diff := 0
	for _, r := range a {
		if !in(r, b) {
			diff++
			if !check(r) {
				return false
			}
		}
	}
	for _, r := range b {
		if !in(r, a) {
			diff++
			if !check(r) {
				return false
			}
		}
	}
	return diff > 0
}

func TestVerif_C06(t *testing.T) {
	lib.Run(t, lib.Spec{ID: "C06", Part: "ignorable-text",
		Rule: "X = generated license-bearing input; 1-3 operations, each at 1-12 drawn positions: insert a copyright-notice line (11 templates, three with a non-ASCII lead-in) or an ISO date line, prefix a line with a list marker (13 markers; <letter>) only once finding F13 is closed), split a word across two lines with a trailing hyphen, swap a word for its interchangeable spelling (35 pairs, both directions, independent copy of the table), switch http/https; positions restricted by independent, generous predicates (not on/after hyphen-ended lines, markers and splits not on notice-like lines nor before words ending in . : ), counted); oracle: token ids unchanged, licenses (names, variants, confidences, token spans, mapped lines unless a split added a line) unchanged, every inserted notice outside all reported license spans reported exactly once as Copyright on its line, no Copyright entry on other lines; non-trivial = X has a license match and an operation was applied",
		New:  func() interface{} { return &c06Case{} }, Gen: c06Gen, Check: c06Check})
}
