//go:build verif

package classifier

// C05: presentation changes (case, horizontal whitespace, CRLF, blank lines, comment
// decoration, typographic dashes/quotes) do not change what is detected.
// Metamorphic oracle at two levels: identical token ids with monotonically mapped
// lines, and identical Match results with mapped lines.

import (
	"fmt"
	"regexp"
	"strings"
	"testing"
	"unicode"

	"pgregory.net/rapid"
	"verif/lib"
)

type xform struct {
	Kind string `json:"k"`
	Arg  int    `json:"a"`
	All  bool   `json:"all,omitempty"`
	Pos  []int  `json:"p,omitempty"` // selected line indices (modulo the current number of lines)
}

type c05Case struct {
	Thr    float64   `json:"thr"`
	Corpus corpusSel `json:"corpus"`
	X      recipe    `json:"x"`
	Ts     []xform   `json:"ts"`
	// PreSplit: before anything else, words of X at these positions are hyphenated across a line break (also the last
	// word of a line, whose second half then stands directly before a line break). The result is the base text; the
	// transformations are applied to it (lines ending in a hyphen stay exempt).
	PreSplit []int `json:"presplit,omitempty"`
}

var c05SplitWord = regexp.MustCompile(`^([A-Za-z]{2,})([A-Za-z]{2,}[.,;:]?)$`)

func preSplit(ls []tline, positions []int) []tline {
	for _, p := range positions {
		if len(ls) == 0 {
			break
		}
		i := ((p % len(ls)) + len(ls)) % len(ls)
		f := strings.Fields(ls[i].s)
		if len(f) == 0 || ls[i].eol == "" || strings.Contains(strings.ToLower(ls[i].s), "copyright") {
			continue
		}
		k := len(f) - 1
		if p%3 != 0 {
			k = (p / 3) % len(f)
		}
		w := f[k]
		if len(w) < 5 || !c05SplitWord.MatchString(w) {
			continue
		}
		cut := 2 + p%(len(w)-3)
		if cut >= len(w)-1 {
			cut = len(w) - 2
		}
		first := strings.Join(append(append([]string{}, f[:k]...), w[:cut]+"-"), " ")
		second := strings.Join(append([]string{w[cut:]}, f[k+1:]...), " ")
		nl := append([]tline{}, ls[:i]...)
		nl = append(nl, tline{s: first, eol: "\n", orig: ls[i].orig}, tline{s: second, eol: ls[i].eol, orig: -1})
		nl = append(nl, ls[i+1:]...)
		ls = nl
	}
	// renumber: the pre-split text is the base text
	for i := range ls {
		ls[i].orig = i
	}
	return ls
}

var c05Kinds = []string{"upper", "lower", "altcase", "tabs", "multiblank", "trailing", "indent", "crlf", "blankline", "decorate", "dashes", "quotes", "nbsp"}
var c05Decor = []string{"//", "// ", "#", "# ", "*", " * ", ";", ";; ", "--", "-- ", ">", "> ", "|", "| ", "%", "% ", "> > "}
var c05Dashes = []string{"‒", "–", "—", "‐"}
var c05DigitDot = regexp.MustCompile(`([0-9])\.(\s|$)`)
var c05DigitDotBlank = regexp.MustCompile(`([0-9])\.([ \t]+[^ \t])`)

func genXforms(t *rapid.T, kinds []string, maxN int) []xform {
	n := lib.IntN(t, 1, maxN, "nxforms")
	var out []xform
	for i := 0; i < n; i++ {
		x := xform{Kind: lib.PickStr(t, kinds, "xformKind"), Arg: lib.IntN(t, 0, 40, "xformArg"), All: lib.IntN(t, 0, 2, "xformAll") == 0}
		if x.Kind == "nbsp" && lib.IntN(t, 0, 3, "nbspAll") > 0 {
			x.All = true // multi-byte blanks everywhere: some of them sit on a read-buffer boundary
		}
		if !x.All {
			x.Pos = lib.Ints(t, 1, 25, 0, 4000, "xformPos")
		}
		out = append(out, x)
	}
	return out
}

func c05Gen(t *rapid.T) interface{} {
	c := &c05Case{}
	c.Corpus, c.Thr = genCorpusThr(t, 0.7, 6)
	c.X = genRecipe(t, c.Thr)
	if !c.Corpus.Full {
		c.Corpus = smallCorpusAround(t, c.X.docs())
	}
	c.Ts = genXforms(t, c05Kinds, 4)
	if lib.IntN(t, 0, 3, "presplit") == 0 {
		c.PreSplit = lib.Ints(t, 1, 6, 0, 6000, "presplitPos")
	}
	return c
}

// tline is one physical line of a text under transformation.
type tline struct {
	s    string
	eol  string // "\n", "\r\n" or "" (last line without terminator)
	orig int    // 0-based line index in the original text, -1 for inserted lines
}

func splitLines(b []byte) []tline {
	var out []tline
	parts := strings.SplitAfter(string(b), "\n")
	for i, p := range parts {
		if p == "" && i == len(parts)-1 {
			break
		}
		l := tline{orig: i}
		if strings.HasSuffix(p, "\n") {
			l.s, l.eol = p[:len(p)-1], "\n"
		} else {
			l.s = p
		}
		out = append(out, l)
	}
	return out
}

func joinLines(ls []tline) []byte {
	var sb strings.Builder
	for _, l := range ls {
		sb.WriteString(l.s)
		sb.WriteString(l.eol)
	}
	return []byte(sb.String())
}

func isDashRune(r rune) bool {
	switch r {
	case '-', '‒', '–', '—', '‐':
		return true
	}
	return false
}

// frozenLines marks every line that ends in a dash (ignoring trailing white space) together with
// everything up to and including the next non-blank line: the property exempts them because a
// hyphen before a line break joins two word halves.
func frozenLines(ls []tline) []bool {
	hard, soft := hyphenZones(ls)
	fr := make([]bool, len(ls))
	for i := range fr {
		fr[i] = hard[i] || soft[i]
	}
	return fr
}

// hyphenZones: hard = lines that end in a dash (exempt as a whole, the statement's wording); soft = the lines after
// it up to and including the next non-blank line (the continuation). On a continuation line only changes in front
// of its first word are excluded (decoration, a blank line inserted before it: they would end up inside the joined
// word); re-casing, blanks, tabs and line terminators are applied there like anywhere else.
func hyphenZones(ls []tline) (hard, soft []bool) {
	hard, soft = make([]bool, len(ls)), make([]bool, len(ls))
	for i, l := range ls {
		t := strings.TrimRightFunc(l.s, unicode.IsSpace)
		if t == "" {
			continue
		}
		rs := []rune(t)
		if !isDashRune(rs[len(rs)-1]) {
			continue
		}
		hard[i] = true
		for j := i + 1; j < len(ls); j++ {
			soft[j] = true
			if strings.TrimSpace(ls[j].s) != "" {
				break
			}
		}
	}
	return hard, soft
}

func recase(s string, mode string) string {
	var sb strings.Builder
	k := 0
	for _, r := range s {
		if r < 128 && unicode.IsLetter(r) {
			switch mode {
			case "upper":
				r = unicode.ToUpper(r)
			case "lower":
				r = unicode.ToLower(r)
			default:
				if k%2 == 0 {
					r = unicode.ToUpper(r)
				} else {
					r = unicode.ToLower(r)
				}
				k++
			}
		}
		sb.WriteRune(r)
	}
	return sb.String()
}

// applyXforms applies the transformations; it returns the new lines and counters (applied, skipped because frozen).
func applyXforms(ls []tline, ts []xform) ([]tline, map[string]int, int) {
	applied := map[string]int{}
	frozenSkips := 0
	for _, x := range ts {
		if len(ls) == 0 {
			break
		}
		fr := frozenLines(ls)
		hard, _ := hyphenZones(ls)
		sel := make([]bool, len(ls))
		if x.All {
			for i := range sel {
				sel[i] = true
			}
		} else {
			for _, p := range x.Pos {
				sel[((p%len(ls))+len(ls))%len(ls)] = true
			}
		}
		if x.Kind == "blankline" {
			var out []tline
			for i, l := range ls {
				// never insert between a hyphen-ended line and its continuation
				inZoneNotFirst := fr[i] && i > 0 && fr[i-1]
				if sel[i] && !x.All && !inZoneNotFirst {
					blank := []string{"", " ", "\t", "   "}[x.Arg%4]
					out = append(out, tline{s: blank, eol: "\n", orig: -1})
					applied[x.Kind]++
				} else if sel[i] && inZoneNotFirst {
					frozenSkips++
				}
				out = append(out, l)
			}
			ls = out
			continue
		}
		for i := range ls {
			if !sel[i] {
				continue
			}
			if hard[i] || (fr[i] && (x.Kind == "decorate" || x.Kind == "indent" && strings.TrimSpace(ls[i].s) == "")) {
				frozenSkips++
				continue
			}
			before := ls[i].s + ls[i].eol
			switch x.Kind {
			case "upper", "lower", "altcase":
				ls[i].s = recase(ls[i].s, x.Kind)
			case "tabs":
				ls[i].s = strings.Replace(ls[i].s, " ", "\t", -1)
			case "nbsp": // another kind of horizontal white space: no-break / ideographic / thin spaces (multi-byte)
				// also the ASCII control characters Go counts as white space: form feed (the GPL texts carry them), vertical tab,
				// a lone carriage return
				ls[i].s = strings.Replace(ls[i].s, " ", []string{"\u00a0", "\u3000", "\u2009", " \u00a0", "\f", "\v", " \r ", "\r"}[x.Arg%8], -1)
			case "multiblank":
				ls[i].s = strings.Replace(ls[i].s, " ", strings.Repeat(" ", 2+x.Arg%3), -1)
			case "trailing":
				ls[i].s += []string{" ", "\t", "   ", " \t "}[x.Arg%4]
			case "indent":
				ls[i].s = []string{" ", "\t", "    ", "\t\t", "        "}[x.Arg%5] + ls[i].s
			case "crlf":
				if ls[i].eol == "\n" {
					ls[i].eol = "\r\n"
				}
			case "decorate":
				ls[i].s = c05Decor[x.Arg%len(c05Decor)] + ls[i].s
			case "dashes":
				ls[i].s = strings.Replace(ls[i].s, "-", c05Dashes[x.Arg%len(c05Dashes)], -1)
			case "dotdot": // C11 only: a number followed by a period gets a second one ("2.0." -> "2.0..")
				ls[i].s = c05DigitDot.ReplaceAllString(ls[i].s, "${1}..${2}")
			case "dotdash": // C11 only: continental clause numbering, "2.0." -> "2.0.-" (followed by a blank, never at the line end)
				ls[i].s = c05DigitDotBlank.ReplaceAllString(ls[i].s, "${1}.-${2}")
			case "quotes":
				s := ls[i].s
				if x.Arg%2 == 0 {
					s = strings.Replace(s, "\"", "“", -1)
					s = strings.Replace(s, "'", "’", -1)
				} else {
					s = strings.Replace(s, "\"", "”", -1)
					s = strings.Replace(s, "'", "‘", -1)
				}
				ls[i].s = s
			}
			if ls[i].s+ls[i].eol != before {
				applied[x.Kind]++
			}
		}
	}
	return ls, applied, frozenSkips
}

// lineMap returns new line number (1-based) for each original line number (1-based).
func lineMap(ls []tline, norig int) []int {
	m := make([]int, norig+2)
	for i, l := range ls {
		if l.orig >= 0 && l.orig+1 < len(m) {
			m[l.orig+1] = i + 1
		}
	}
	return m
}

// compareTransformed is the shared oracle of C05/C06 style token preserving transformations.
func compareTransformed(cl *Classifier, x, tx []byte, lmap []int, what string) string {
	a, b := ids(cl, x), ids(cl, tx)
	mapLine := func(l int) int {
		if l >= 0 && l < len(lmap) && lmap[l] != 0 {
			return lmap[l]
		}
		return -1
	}
	n := len(a)
	if len(b) < n {
		n = len(b)
	}
	for i := 0; i < n; i++ {
		if a[i].ID != b[i].ID || mapLine(a[i].Line) != b[i].Line {
			return fmt.Sprintf("%s changed the token stream at word %d: before id=%d (%q) line %d (expected new line %d), after id=%d (%q) line %d",
				what, i, a[i].ID, cl.dict.getWord(a[i].ID), a[i].Line, mapLine(a[i].Line), b[i].ID, cl.dict.getWord(b[i].ID), b[i].Line)
		}
	}
	if len(a) != len(b) {
		return fmt.Sprintf("%s changed the number of words from %d to %d", what, len(a), len(b))
	}
	ra, rb := cl.Match(x), cl.Match(tx)
	want := canon(ra)
	for i := range want {
		want[i].SL, want[i].EL = mapLine(want[i].SL), mapLine(want[i].EL)
	}
	want = canonSort(want)
	got := canon(rb)
	if !equalRecs(want, got) {
		return fmt.Sprintf("%s changed the matches\nexpected (lines mapped):\n%sgot:\n%s", what, fmtRecs(want), fmtRecs(got))
	}
	if len(ra.Matches) > 0 && mapLine(ra.TotalInputLines) != rb.TotalInputLines {
		return fmt.Sprintf("%s changed TotalInputLines: %d (mapped %d) -> %d", what, ra.TotalInputLines, mapLine(ra.TotalInputLines), rb.TotalInputLines)
	}
	return ""
}

func c05Check(ci interface{}) lib.Outcome {
	c := ci.(*c05Case)
	if c.Thr < 0.5 || c.Thr > 1 || len(c.Ts) == 0 || len(c.Ts) > 16 {
		return lib.Outcome{Skip: "malformed"}
	}
	for _, x := range c.Ts {
		ok := false
		for _, k := range c05Kinds {
			if k == x.Kind {
				ok = true
			}
		}
		if !ok {
			return lib.Outcome{Skip: "malformed"}
		}
	}
	cl := classifierFor(c.Thr, c.Corpus)
	x := c.X.build(cl)
	if len(c.PreSplit) > 0 {
		x = joinLines(preSplit(splitLines(x), c.PreSplit))
	}
	ls := splitLines(x)
	norig := len(ls)
	ls, applied, frozenSkips := applyXforms(ls, c.Ts)
	tx := joinLines(ls)
	var kinds []string
	for _, k := range c05Kinds {
		if applied[k] > 0 {
			kinds = append(kinds, k)
		}
	}
	what := "transformation " + strings.Join(kinds, "+") + " of " + c.X.describe()
	if msg := compareTransformed(cl, x, tx, lineMap(ls, norig), what); msg != "" {
		return lib.Outcome{Violation: fmt.Sprintf("threshold %v: %s", c.Thr, msg)}
	}
	res := cl.Match(x)
	nlic := len(licensesOnly(rawList(res)))
	classes := []string{fmt.Sprintf("composition-of-%d", len(kinds))}
	if len(c.PreSplit) > 0 {
		classes = append(classes, "base-text-with-hyphenated-words")
	}
	for _, k := range kinds {
		classes = append(classes, "t-"+k)
	}
	o := lib.Outcome{Classes: classes, Nontrivial: nlic > 0 && string(tx) != string(x), Extra: map[string]int{"lines_frozen_by_hyphen_exemption": frozenSkips}}
	if o.Nontrivial {
		o.FP = fmt.Sprintf("%v|%s|%v|%d", c.Thr, c.X.describe(), kinds, len(tx))
		o.Sample = map[string]interface{}{"threshold": c.Thr, "x": c.X.describe(), "applied": applied, "frozen_skips": frozenSkips, "transformed_head": lib.Preview(tx, 160)}
	}
	return o
}

func TestVerif_C05(t *testing.T) {
	lib.Run(t, lib.Spec{ID: "C05", Part: "presentation",
		Rule: "X = generated license-bearing input (documents in context, scenario files, edited texts); T = composition of 1-4 of: upper/lower/alternating ASCII case, space->tab, space->no-break / ideographic / thin space, multiple blanks, trailing blanks, indentation, CRLF, blank-line insertion, line decoration (17 markers), typographic dashes, typographic quotes, applied to all or to drawn lines; lines ending in a dash and their continuation are frozen (counted); oracle: identical token ids with mapped lines and identical Match results with mapped lines; non-trivial = X has a license match and T(X) != X; distinct = distinct (threshold, X, applied kinds, |T(X)|)",
		New:  func() interface{} { return &c05Case{} }, Gen: c05Gen, Check: c05Check})
}
