//go:build verif

package classifier

// C04: Match is a deterministic, side-effect-free function of corpus and input.
// One oracle for four generated experiments: bit-identical Results, same order.

import (
	"bytes"
	"encoding/json"
	"fmt"
	"io"
	"os"
	"regexp"
	"sort"
	"strings"
	"sync"
	"testing"

	"pgregory.net/rapid"
	"verif/lib"
)

// resultString renders a Results value exactly (order preserved, floats bit-exact via %b).
func resultString(r Results) string {
	var sb strings.Builder
	fmt.Fprintf(&sb, "total=%d n=%d\n", r.TotalInputLines, len(r.Matches))
	for _, m := range r.Matches {
		fmt.Fprintf(&sb, "%s|%s|%s|%b|%d|%d|%d|%d\n", m.MatchType, m.Name, m.Variant, m.Confidence, m.StartLine, m.EndLine, m.StartTokenIndex, m.EndTokenIndex)
	}
	return sb.String()
}

func diffResults(a, b Results) string {
	return fmt.Sprintf("first (TotalInputLines=%d):\n%ssecond (TotalInputLines=%d):\n%s", a.TotalInputLines, fmtRecs(rawList(a)), b.TotalInputLines, fmtRecs(rawList(b)))
}

// chunkReader delivers data in fixed size chunks.
type chunkReader struct {
	data  []byte
	chunk int
}

func (r *chunkReader) Read(p []byte) (int, error) {
	if len(r.data) == 0 {
		return 0, io.EOF
	}
	n := r.chunk
	if n > len(p) {
		n = len(p)
	}
	if n > len(r.data) {
		n = len(r.data)
	}
	copy(p, r.data[:n])
	r.data = r.data[n:]
	return n, nil
}

// ------------------------------------------------------------------ part 1: call histories

type c04Op struct {
	Kind  string `json:"k"` // match | matchfrom | normalize | trace
	I     int    `json:"i"`
	Chunk int    `json:"c,omitempty"`
}

type c04Hist struct {
	Thr    float64   `json:"thr"`
	Corpus corpusSel `json:"corpus"`
	Pool   []recipe  `json:"pool"`
	Ops    []c04Op   `json:"ops"`
}

func c04TraceConfig(k int, sink *int) *TraceConfiguration {
	tr := func(f string, args ...interface{}) { *sink += len(f) }
	switch k % 7 {
	case 0:
		return nil
	case 1:
		return &TraceConfiguration{}
	case 2:
		return &TraceConfiguration{TracePhases: "*", TraceLicenses: "*", Tracer: tr}
	case 3:
		return &TraceConfiguration{TracePhases: "tokenize,score", TraceLicenses: "License/MIT*,License/BSD*,Header/*", Tracer: tr}
	case 4:
		return &TraceConfiguration{TracePhases: "searchset", TraceLicenses: "License/*", Tracer: tr}
	case 5:
		return &TraceConfiguration{TracePhases: "*", TraceLicenses: "License/Apache-2.0/license.txt"} // nil Tracer: prints
	default:
		return &TraceConfiguration{TracePhases: "score,frequency", TraceLicenses: "*", Tracer: tr}
	}
}

func c04NewWordsText(k int) []byte {
	var sb strings.Builder
	for i := 0; i < 40; i++ {
		fmt.Fprintf(&sb, "freshword%dx%d licence the software ", k, i)
		if i%7 == 0 {
			sb.WriteString("\n")
		}
	}
	return []byte(sb.String())
}

func c04HistGen(t *rapid.T) interface{} {
	c := &c04Hist{}
	if lib.IntN(t, 0, 9, "corpusKind") == 0 {
		c.Corpus = corpusSel{Full: true}
		c.Thr = fullThreshold(t, 0.7)
	} else {
		c.Thr = genThreshold(t, 0.7)
	}
	np := lib.IntN(t, 3, 8, "npool")
	var must []int
	for i := 0; i < np; i++ {
		r := genRecipe(t, c.Thr)
		c.Pool = append(c.Pool, r)
		must = append(must, r.docs()...)
	}
	if !c.Corpus.Full {
		c.Corpus = smallCorpusAround(t, must)
		// identical-content documents make ties: add them regularly
		if lib.Bool(t, "withTwins") {
			for i, f := range assets() {
				if f.Name == "WTFPL" {
					c.Corpus.Docs = append(c.Corpus.Docs, i)
				}
			}
		}
	}
	n := lib.IntN(t, 4, 30, "nops")
	kinds := []string{"match", "match", "match", "matchfrom", "normalize", "normalize", "trace"}
	for i := 0; i < n; i++ {
		c.Ops = append(c.Ops, c04Op{Kind: lib.PickStr(t, kinds, "kind"), I: lib.IntN(t, 0, 40, "i"), Chunk: lib.PickInt(t, []int{1, 2, 3, 7, 64, 1019, 1024, 1025, 4096}, "chunk")})
	}
	switch lib.IntN(t, 0, 3, "special") {
	case 0:
		// inputs that leave non-ASCII bytes everywhere in any reused scratch memory, and inputs that end inside a
		// multi-byte sequence right after a word: what the second kind yields must not depend on the first
		// a whole document shorter than one read chunk (then the bytes behind the end of the input are not the input's
		// own), so that its last word is a known word of a text that matches
		var shortDocs []int
		for i, f := range assets() {
			if len(f.Content) >= 200 && len(f.Content) <= 900 {
				shortDocs = append(shortDocs, i)
			}
		}
		sd := shortDocs[lib.IntN(t, 0, len(shortDocs)-1, "truncDoc")]
		d := assets()[sd].Content
		c.Corpus.Docs = append(c.Corpus.Docs, sd)
		d = bytes.TrimRight(d, " \t\r\n.,;:")
		base := len(c.Pool)
		c.Pool = append(c.Pool,
			recipe{Segs: []seg{{Kind: "raw", Raw: []byte(strings.Repeat("é", lib.IntN(t, 600, 1500, "eRun")))}}},
			recipe{Segs: []seg{{Kind: "raw", Raw: append(append([]byte{}, d...), 0xc3)}}},
			recipe{Segs: []seg{{Kind: "raw", Raw: []byte("x" + strings.Repeat("é", lib.IntN(t, 600, 1500, "eRun2")))}}},
			recipe{Segs: []seg{{Kind: "raw", Raw: append(append([]byte{}, d[:len(d)-lib.IntN(t, 1, 7, "cut")]...), 0xe2, 0x80)}}})
		for _, k := range []int{1, 0, 1, 2, 1, 3, 0, 3, 2, 3} {
			c.Ops = append(c.Ops, c04Op{Kind: lib.PickStr(t, []string{"match", "match", "matchfrom", "normalize"}, "specialKind"), I: base + k, Chunk: 1024})
		}
		c.Ops = append(c.Ops, c04Op{Kind: "match", I: base + 1}, c04Op{Kind: "match", I: base + 3})
	case 1:
		// spelling variants: Normalize sees (and may record) the variant spelling, Match must still map it
		a := assets()
		d := string(a[lib.IntN(t, 0, len(a)-1, "spellDoc")].Content)
		for _, p := range c06Spellings {
			d = strings.Replace(d, p[1], p[0], -1)
		}
		base := len(c.Pool)
		c.Pool = append(c.Pool, recipe{Segs: []seg{{Kind: "raw", Raw: []byte(d)}}})
		c.Ops = append(c.Ops, c04Op{Kind: "normalize", I: base}, c04Op{Kind: "match", I: base}, c04Op{Kind: "normalize", I: base}, c04Op{Kind: "matchfrom", I: base, Chunk: 7})
	}
	return c
}

func c04HistCheck(ci interface{}) lib.Outcome {
	c := ci.(*c04Hist)
	if c.Thr < 0.5 || c.Thr > 1 || len(c.Pool) == 0 {
		return lib.Outcome{Skip: "malformed"}
	}
	files := c.Corpus.files()
	cl := buildClassifier(c.Thr, files) // pristine instance, private to this case
	inputs := make([][]byte, len(c.Pool))
	ref := make([]Results, len(c.Pool))
	refS := make([]string, len(c.Pool))
	multi := false
	// The reference results are taken right after a plain ASCII text has been matched (on a throw-away instance), so
	// that whatever scratch memory the package might reuse between calls holds nothing an input could pick up.
	scrub := bytes.Repeat([]byte("plain ascii filler words only "), 120)
	scrubber := NewClassifier(c.Thr)
	for i, r := range c.Pool {
		inputs[i] = r.build(cl)
		scrubber.Match(scrub)
		scrubber.Normalize(scrub)
		ref[i] = cl.Match(inputs[i])
		refS[i] = resultString(ref[i])
		if len(ref[i].Matches) > 1 {
			multi = true
		}
	}
	// silence the default tracer (fmt.Printf) for the duration of the history
	devnull, err := os.OpenFile(os.DevNull, os.O_WRONLY, 0)
	if err == nil {
		saved := os.Stdout
		os.Stdout = devnull
		defer func() { os.Stdout = saved; devnull.Close() }()
	}
	sink := 0
	disturbed := false
	repeatedAfterDisturbance := false
	for step, op := range c.Ops {
		i := ((op.I % len(inputs)) + len(inputs)) % len(inputs)
		switch op.Kind {
		case "match":
			got := cl.Match(inputs[i])
			if s := resultString(got); s != refS[i] {
				return lib.Outcome{Violation: fmt.Sprintf("step %d: Match(pool[%d] = %s) differs from the result on the pristine classifier\n%s", step, i, c.Pool[i].describe(), diffResults(ref[i], got))}
			}
			if disturbed {
				repeatedAfterDisturbance = true
			}
		case "matchfrom":
			ch := op.Chunk
			if ch < 1 {
				ch = 1
			}
			got, err := cl.MatchFrom(&chunkReader{data: append([]byte{}, inputs[i]...), chunk: ch})
			if err != nil {
				return lib.Outcome{Violation: fmt.Sprintf("step %d: MatchFrom returned error %v", step, err)}
			}
			if s := resultString(got); s != refS[i] {
				return lib.Outcome{Violation: fmt.Sprintf("step %d: MatchFrom(pool[%d], chunk %d) differs from Match on the pristine classifier\n%s", step, i, ch, diffResults(ref[i], got))}
			}
			if disturbed {
				repeatedAfterDisturbance = true
			}
		case "normalize":
			if op.I%3 == 0 && op.I < 30 {
				cl.Normalize(c04NewWordsText(op.I)) // adds new words to the dictionary
			} else {
				cl.Normalize(inputs[i])
			}
			disturbed = true
		case "trace":
			cl.SetTraceConfiguration(c04TraceConfig(op.I, &sink))
			disturbed = true
		default:
			return lib.Outcome{Skip: "malformed"}
		}
	}
	// final sweep on the used classifier and on a separately built instance
	cl2 := buildClassifier(c.Thr, files)
	for i := range inputs {
		if got := cl.Match(inputs[i]); resultString(got) != refS[i] {
			return lib.Outcome{Violation: fmt.Sprintf("after the history: Match(pool[%d] = %s) differs from the pristine result\n%s", i, c.Pool[i].describe(), diffResults(ref[i], got))}
		}
		if got := cl2.Match(inputs[i]); resultString(got) != refS[i] {
			return lib.Outcome{Violation: fmt.Sprintf("separately built instance: Match(pool[%d] = %s) differs\n%s", i, c.Pool[i].describe(), diffResults(ref[i], got))}
		}
	}
	o := lib.Outcome{Nontrivial: repeatedAfterDisturbance}
	if multi {
		o.Classes = append(o.Classes, "input-with-several-matches")
	}
	if c.Corpus.Full {
		o.Classes = append(o.Classes, "full-corpus")
	}
	if o.Nontrivial {
		b, _ := json.Marshal(c.Ops)
		var names []string
		for _, r := range c.Pool {
			names = append(names, r.describe())
		}
		o.FP = fmt.Sprintf("%v|%s|%s", c.Thr, b, strings.Join(names, ";"))
		o.Sample = map[string]interface{}{"threshold": c.Thr, "pool": names, "ops": string(b)}
	}
	return o
}

// ------------------------------------------------------------------ part 2: rebuild / permute / superset

type c04Rebuild struct {
	Thr      float64  `json:"thr"`
	Docs     []int    `json:"docs"`
	Perm     []int    `json:"perm"`     // permutation applied to the file list (indices modulo)
	Extra    int      `json:"extra"`    // number of unrelated documents added
	ExtraPos []int    `json:"extrapos"` // insertion positions
	Inputs   []recipe `json:"inputs"`
	Twins    bool     `json:"twins"`
	// Alias > 0: the first document of the first input is in the corpus under further names as well, with the same
	// text: names on both sides of a name-prefix rule of the scorer (BSD-..., Apache-...), names and variants that
	// differ in case only. One more input is matched: that document with a line of rule words inserted.
	Alias int `json:"alias,omitempty"`
}

func c04RebuildGen(t *rapid.T) interface{} {
	c := &c04Rebuild{Thr: genThreshold(t, 0.7), Twins: lib.Bool(t, "twins")}
	ni := lib.IntN(t, 1, 4, "ninputs")
	for i := 0; i < ni; i++ {
		r := genRecipe(t, c.Thr)
		c.Inputs = append(c.Inputs, r)
		c.Docs = append(c.Docs, r.docs()...)
	}
	n := lib.IntN(t, 2, 20, "ndocs")
	for i := 0; i < n; i++ {
		c.Docs = append(c.Docs, lib.IntN(t, 0, len(assets())-1, "doc"))
	}
	c.Perm = lib.Perm(t, 32, "perm")
	if lib.IntN(t, 0, 3, "aliased") == 0 {
		c.Alias = lib.IntN(t, 1, 255, "alias")
	}
	c.Extra = lib.IntN(t, 0, 5, "extra")
	for i := 0; i < c.Extra; i++ {
		c.ExtraPos = append(c.ExtraPos, lib.IntN(t, 0, 40, "extraPos"))
	}
	return c
}

func c04UnrelatedDoc(k int) corpusFile {
	var sb strings.Builder
	for i := 0; i < 30+k*13; i++ {
		fmt.Fprintf(&sb, "qzunrelated%c%c%c ", 'a'+byte(k), 'a'+byte(i%26), 'a'+byte((i/26)%26))
		if i%9 == 8 {
			sb.WriteByte('\n')
		}
	}
	return corpusFile{"License", fmt.Sprintf("Unrelated-%d", k), "license.txt", []byte(sb.String())}
}

func c04RebuildCheck(ci interface{}) lib.Outcome {
	c := ci.(*c04Rebuild)
	if c.Thr < 0.5 || c.Thr > 1 || len(c.Inputs) == 0 || c.Extra < 0 || c.Extra > 20 {
		return lib.Outcome{Skip: "malformed"}
	}
	sel := corpusSel{Docs: c.Docs}
	if c.Twins {
		for i, f := range assets() {
			if f.Name == "WTFPL" {
				sel.Docs = append(sel.Docs, i)
			}
		}
	}
	files := sel.files()
	var aliasInput []byte
	if c.Alias > 0 && len(c.Docs) > 0 {
		all := assets()
		d := all[((c.Docs[0]%len(all))+len(all))%len(all)]
		names := [][2]string{{"BSD-Alias", d.Variant}, {"Plain-Alias", d.Variant}, {"plain-alias", d.Variant}, {"Plain-Alias", strings.ToUpper(d.Variant)},
			{"Apache-Alias", d.Variant}, {"PHP-Alias", d.Variant}, {"LGPL-2.0-Alias", d.Variant}, {"Zed-Alias", d.Variant}}
		for i, n := range names {
			if c.Alias&(1<<uint(i)) != 0 {
				files = append(files, corpusFile{d.Cat, n[0], n[1], d.Content})
			}
		}
		lines := bytes.SplitAfter(d.Content, []byte("\n"))
		mid := len(lines) / 2
		aliasInput = append(aliasInput, bytes.Join(lines[:mid], nil)...)
		if len(aliasInput) > 0 && aliasInput[len(aliasInput)-1] != '\n' {
			aliasInput = append(aliasInput, '\n')
		}
		aliasInput = append(aliasInput, "bsd apache php library\n"...)
		aliasInput = append(aliasInput, bytes.Join(lines[mid:], nil)...)
	}
	a := buildClassifier(c.Thr, files)
	// permuted order
	order := make([]int, 0, len(files))
	used := map[int]bool{}
	for _, p := range c.Perm {
		k := ((p % len(files)) + len(files)) % len(files)
		if !used[k] {
			used[k] = true
			order = append(order, k)
		}
	}
	for k := range files {
		if !used[k] {
			order = append(order, k)
		}
	}
	identity := true
	var files2 []corpusFile
	for pos, k := range order {
		if pos != k {
			identity = false
		}
		files2 = append(files2, files[k])
	}
	for e := 0; e < c.Extra; e++ {
		pos := 0
		if e < len(c.ExtraPos) {
			pos = ((c.ExtraPos[e] % (len(files2) + 1)) + len(files2) + 1) % (len(files2) + 1)
		}
		files2 = append(files2[:pos], append([]corpusFile{c04UnrelatedDoc(e)}, files2[pos:]...)...)
	}
	b := buildClassifier(c.Thr, files2)
	multi := false
	if aliasInput != nil {
		ra, rb := a.Match(aliasInput), b.Match(aliasInput)
		for k := 0; k < 3; k++ {
			if again := a.Match(aliasInput); resultString(again) != resultString(ra) {
				return lib.Outcome{Violation: fmt.Sprintf("threshold %v: corpus with one text under several names (alias mask %d): repeated Match calls on the same classifier give different Results\n%s", c.Thr, c.Alias, diffResults(ra, again))}
			}
		}
		if resultString(ra) != resultString(rb) {
			return lib.Outcome{Violation: fmt.Sprintf("threshold %v: corpus with one text under several names (alias mask %d), added in a different order (identity=%v) with %d unrelated documents, gives different Results for that text with a line of rule words inserted\n%s",
				c.Thr, c.Alias, identity, c.Extra, diffResults(ra, rb))}
		}
	}
	for i, r := range c.Inputs {
		in := r.build(a)
		in2 := r.build(b)
		if !bytes.Equal(in, in2) {
			return lib.Outcome{Skip: "oov-words-differ-between-corpora"}
		}
		if c.Alias > 0 {
			ra := a.Match(in)
			for k := 0; k < 2; k++ {
				if again := a.Match(in); resultString(again) != resultString(ra) {
					return lib.Outcome{Violation: fmt.Sprintf("threshold %v: corpus with one text under several names (alias mask %d): repeated Match calls on input %d (%s) give different Results\n%s", c.Thr, c.Alias, i, r.describe(), diffResults(ra, again))}
				}
			}
		}
		// "unrelated" is verified: no word of the input occurs in an added document
		if c.Extra > 0 {
			for _, w := range words(in, true) {
				if strings.HasPrefix(w.Word, "qzunrelated") {
					return lib.Outcome{Skip: "premise_failed"}
				}
			}
		}
		ra, rb := a.Match(in), b.Match(in)
		if len(ra.Matches) > 1 {
			multi = true
		}
		if resultString(ra) != resultString(rb) {
			return lib.Outcome{Violation: fmt.Sprintf("threshold %v: input %d (%s) matched against the same corpus added in a different order (identity=%v) with %d unrelated documents gives different Results\n%s",
				c.Thr, i, r.describe(), identity, c.Extra, diffResults(ra, rb))}
		}
	}
	o := lib.Outcome{Nontrivial: !identity || c.Extra > 0}
	if multi {
		o.Classes = append(o.Classes, "input-with-several-matches")
	}
	if c.Extra > 0 {
		o.Classes = append(o.Classes, "superset-corpus")
	}
	if !identity {
		o.Classes = append(o.Classes, "permuted-corpus")
	}
	if aliasInput != nil {
		o.Classes = append(o.Classes, "one-text-under-several-names")
	}
	if o.Nontrivial {
		var names []string
		for _, r := range c.Inputs {
			names = append(names, r.describe())
		}
		o.FP = fmt.Sprintf("%v|%v|%v|%d|%s", c.Thr, c.Docs, order, c.Extra, strings.Join(names, ";"))
		o.Sample = map[string]interface{}{"threshold": c.Thr, "corpus_docs": len(files), "order": order, "unrelated_added": c.Extra, "inputs": names}
	}
	return o
}

// ------------------------------------------------------------------ part 3: the caller's bytes

type c04Bytes struct {
	API      string `json:"api"` // match | matchfrom | normalize | addcontent
	In       recipe `json:"in"`
	SpareCap int    `json:"spare"`
}

func c04BytesGen(t *rapid.T) interface{} {
	c := &c04Bytes{API: lib.PickStr(t, []string{"match", "matchfrom", "normalize", "addcontent"}, "api"), SpareCap: lib.IntN(t, 0, 64, "spare")}
	if lib.IntN(t, 0, 3, "hostile") == 0 {
		c.In = recipe{Segs: []seg{{Kind: "raw", Raw: genHostileText(t)}}}
	} else {
		c.In = genRecipe(t, 0.8)
	}
	return c
}

func c04BytesCheck(ci interface{}) lib.Outcome {
	c := ci.(*c04Bytes)
	if c.SpareCap < 0 || c.SpareCap > 4096 {
		return lib.Outcome{Skip: "malformed"}
	}
	sel := smallFixedCorpus()
	cl := buildClassifier(0.8, sel.files())
	in := c.In.build(cl)
	buf := make([]byte, len(in)+c.SpareCap)
	copy(buf, in)
	for i := len(in); i < len(buf); i++ {
		buf[i] = 0xAA
	}
	snapshot := append([]byte{}, buf...)
	arg := buf[:len(in)]
	switch c.API {
	case "match":
		cl.Match(arg)
	case "matchfrom":
		cl.MatchFrom(bytes.NewReader(arg))
	case "normalize":
		cl.Normalize(arg)
	case "addcontent":
		cl.AddContent("License", "Added", "license.txt", arg)
		cl.Match(arg)
	default:
		return lib.Outcome{Skip: "malformed"}
	}
	if !bytes.Equal(buf, snapshot) {
		k := 0
		for k < len(buf) && buf[k] == snapshot[k] {
			k++
		}
		return lib.Outcome{Violation: fmt.Sprintf("%s modified the caller's slice at offset %d (len %d, cap %d): %q -> %q", c.API, k, len(in), len(buf), snapshot[k], buf[k])}
	}
	return lib.Outcome{Nontrivial: len(in) > 0, FP: fmt.Sprintf("%s|%s|%d|%d", c.API, c.In.describe(), len(in), c.SpareCap), Classes: []string{"api-" + c.API},
		Sample: map[string]interface{}{"api": c.API, "input": c.In.describe(), "len": len(in), "spare_capacity": c.SpareCap}}
}

func smallFixedCorpus() corpusSel {
	var sel corpusSel
	for i, f := range assets() {
		switch f.Name {
		case "MIT", "Apache-2.0", "BSD-3-Clause", "GPL-2.0", "WTFPL", "ISC":
			sel.Docs = append(sel.Docs, i)
		}
	}
	return sel
}

// ------------------------------------------------------------------ part 4: repetition, ties, separate processes

type c04Repeat struct {
	Doc   int `json:"doc"`   // asset index (>= 0) or -(scenario index + 1)
	Twin  int `json:"twin"`  // second document concatenated (or -1)
	Times int `json:"times"` // repetitions inside the process
	// Expect is filled in by the driver when separate processes disagreed: the result another process observed for
	// this case. A replay (which runs after a non-trivial pre-history) must reproduce it.
	Expect string `json:"expect,omitempty"`
}

func c04RepeatInput(cl *Classifier, c *c04Repeat) ([]byte, string) {
	var buf bytes.Buffer
	desc := ""
	if c.Doc < 0 {
		sc := scenarios()
		k := (-c.Doc - 1) % len(sc)
		buf.Write(sc[k])
		desc = "scenario " + scenNames[k]
	} else {
		a := assets()
		f := a[c.Doc%len(a)]
		buf.WriteString(oovBlock(cl, 10, 5, 2))
		buf.Write(f.Content)
		buf.WriteString("\n")
		desc = f.key()
		if c.Twin >= 0 {
			g := a[c.Twin%len(a)]
			buf.WriteString(oovBlock(cl, 50, 4, 1))
			buf.Write(g.Content)
			buf.WriteString("\n")
			desc += " + " + g.key()
		}
		buf.WriteString(oovBlock(cl, 90, 3, 1))
	}
	return buf.Bytes(), desc
}

// c04RepeatEnum: every embedded document (every third in the quick tier), every scenario file, and every pair of
// token-identical corpus documents found by a white-box scan (tie-prone inputs). NOT sharded: every process runs
// the same batch so that the driver can compare the digests of separate processes (different map seeds).
// c04Prehistory gives every process a different past before the common batch starts: other classifier instances
// over the same corpus at other thresholds, matched against and normalised with. Results must not depend on it.
func c04Prehistory() {
	shard := lib.EnvInt("VERIF_SHARD", 0)
	if os.Getenv("VERIF_MODE") == "replay" {
		shard = 1 // a replayed case gets a non-trivial past as well
	}
	a := assets()
	switch shard % 4 {
	case 1:
		o := buildClassifier(0.7, a)
		o.Match(a[10].Content)
	case 2:
		o := buildClassifier(0.9, a)
		o.Match(a[200].Content)
		o.Normalize(a[201].Content)
	case 3:
		o := buildClassifier(1.0, a[:200])
		o.Match(a[3].Content)
		o2 := buildClassifier(0.5, a[200:])
		o2.Match(a[300].Content)
	}
}

var c04PreOnce sync.Once

func c04RepeatEnum(yield func(interface{}) bool) {
	c04PreOnce.Do(c04Prehistory)
	cl := classifierFor(0.8, corpusSel{Full: true})
	a := assets()
	step := 1
	if lib.Tier() != "thorough" {
		step = 4
	}
	// token-identical documents
	byNorm := map[string][]int{}
	var norms []string
	for i, f := range a {
		d := cl.docs[docKey(f)]
		if d == nil || d.size() == 0 {
			continue
		}
		if _, ok := byNorm[d.Norm]; !ok {
			norms = append(norms, d.Norm)
		}
		byNorm[d.Norm] = append(byNorm[d.Norm], i)
	}
	for _, n := range norms {
		g := byNorm[n]
		if len(g) > 1 {
			if !yield(&c04Repeat{Doc: g[0], Twin: -1, Times: 12}) {
				return
			}
			if !yield(&c04Repeat{Doc: g[0], Twin: g[1], Times: 12}) {
				return
			}
		}
	}
	for i := 0; i < len(a); i += step {
		if !yield(&c04Repeat{Doc: i, Twin: -1, Times: 3}) {
			return
		}
	}
	for k := range scenarios() {
		if !yield(&c04Repeat{Doc: -(k + 1), Twin: -1, Times: 4}) {
			return
		}
	}
}

func c04RepeatCheck(ci interface{}) lib.Outcome {
	c := ci.(*c04Repeat)
	c04PreOnce.Do(c04Prehistory)
	cl := classifierFor(0.8, corpusSel{Full: true})
	in, desc := c04RepeatInput(cl, c)
	first := cl.Match(in)
	fs := resultString(first)
	times := c.Times
	if times < 2 {
		times = 2
	}
	if times > 50 {
		times = 50
	}
	for k := 1; k < times; k++ {
		got := cl.Match(in)
		if s := resultString(got); s != fs {
			return lib.Outcome{Violation: fmt.Sprintf("Match(%s) repeated on the same classifier: call %d differs from call 1\n%s", desc, k+1, diffResults(first, got))}
		}
	}
	if c.Expect != "" && c.Expect != desc+"\n"+fs {
		return lib.Outcome{Violation: fmt.Sprintf("Match(%s) in this process differs from what another process (different history of classifier instances) observed\nother process:\n%s\nthis process:\n%s", desc, c.Expect, desc+"\n"+fs)}
	}
	ties := false
	for i := 1; i < len(first.Matches); i++ {
		x, y := first.Matches[i-1], first.Matches[i]
		if x.Confidence == y.Confidence && x.StartTokenIndex == y.StartTokenIndex && x.EndTokenIndex == y.EndTokenIndex {
			ties = true
		}
	}
	o := lib.Outcome{Nontrivial: len(first.Matches) > 1, FP: desc, Digest: desc + "\n" + fs}
	if ties {
		o.Classes = append(o.Classes, "tied-matches")
	}
	if c.Twin >= 0 {
		o.Classes = append(o.Classes, "token-identical-documents")
	}
	if o.Nontrivial {
		o.Sample = map[string]interface{}{"input": desc, "repetitions": times, "result": fmtRecs(rawList(first))}
	}
	return o
}

func TestVerif_C04_History(t *testing.T) {
	lib.Run(t, lib.Spec{ID: "C04", Part: "history",
		Rule: "call histories of 4-30 operations (Match, MatchFrom with drawn chunk sizes, Normalize of pool inputs and of texts full of new words, SetTraceConfiguration with 7 configurations incl. nil and the printing default tracer) over a pool of 3-8 generated inputs on a private classifier (small corpus incl. the token-identical WTFPL pair, or full); every Match/MatchFrom must be bit-identical, in order, to the result on the pristine classifier, also on a separately built instance; non-trivial = a Match repeated after a Normalize or trace change; distinct = distinct (threshold, ops, pool)",
		New:  func() interface{} { return &c04Hist{} }, Gen: c04HistGen, Check: c04HistCheck})
}

func TestVerif_C04_Rebuild(t *testing.T) {
	lib.Run(t, lib.Spec{ID: "C04", Part: "rebuild",
		Rule: "the same 3-26 corpus documents added in a drawn permutation and with 0-5 unrelated documents (vocabulary verified disjoint from the input) inserted at drawn positions; generated inputs must give identical Results in identical order; non-trivial = permutation differs from identity or a document was added",
		New:  func() interface{} { return &c04Rebuild{} }, Gen: c04RebuildGen, Check: c04RebuildCheck})
}

func TestVerif_C04_CallerBytes(t *testing.T) {
	lib.Run(t, lib.Spec{ID: "C04", Part: "caller-bytes",
		Rule: "Match / MatchFrom / Normalize / AddContent are handed a slice with 0-64 bytes of spare capacity filled with a pattern; the whole backing array must be unchanged afterwards; non-trivial = non-empty input",
		New:  func() interface{} { return &c04Bytes{} }, Gen: c04BytesGen, Check: c04BytesCheck})
}

func TestVerif_C04_Repeat(t *testing.T) {
	lib.Run(t, lib.Spec{ID: "C04", Part: "repeat",
		Rule: "embedded documents in context (every 4th in quick, all in thorough), all scenario files and every pair of token-identical corpus documents (white-box scan), each matched 3-12 times on one full-corpus classifier: all calls identical; the same batch runs in several separate processes, each after a different pre-history (other classifier instances over the same corpus at thresholds 0.5-1.0, matched and normalised with), and the driver compares their ordered result digests; non-trivial = result with more than one match",
		New:  func() interface{} { return &c04Repeat{} }, Enum: c04RepeatEnum, Check: c04RepeatCheck})
}

// ------------------------------------------------------------------ part 5: low-vocabulary, self-repeating documents

// Documents that repeat their own word runs make several source positions map to the same target position; any
// decision that depends on the order in which such ties are visited shows up as run-to-run differences.
type c04Rep struct {
	Thr   float64 `json:"thr"`
	Vocab int     `json:"vocab"`
	Doc   []int   `json:"doc"`   // word indices of the corpus document
	Input []int   `json:"input"` // word indices of the input; negative = an out-of-vocabulary word
	Times int     `json:"times"`
}

func c04RepWords(ws []int, vocab int) string {
	var sb strings.Builder
	for i, w := range ws {
		if i > 0 {
			if i%12 == 0 {
				sb.WriteByte('\n')
			} else {
				sb.WriteByte(' ')
			}
		}
		if w < 0 {
			fmt.Fprintf(&sb, "zzw%c%c", 'a'+byte((-w)%26), 'a'+byte((-w/26)%26))
		} else {
			k := w % vocab
			fmt.Fprintf(&sb, "w%c%c", 'a'+byte(k%8), 'a'+byte(k/8))
		}
	}
	return sb.String()
}

func c04RepGen(t *rapid.T) interface{} {
	c := &c04Rep{Thr: lib.PickFloat(t, []float64{0.5, 0.6, 0.7, 0.75, 0.8, 0.8, 0.9}, "thr"), Vocab: lib.PickInt(t, []int{6, 8, 10, 10, 12, 15, 15, 20, 20, 24}, "vocab"), Times: 25}
	// document: random words with copy-pasted runs
	n := lib.IntN(t, 20, 70, "ndoc")
	for len(c.Doc) < n {
		if len(c.Doc) > 6 && lib.IntN(t, 0, 2, "repeatRun") == 0 {
			s := lib.IntN(t, 0, len(c.Doc)-3, "runFrom")
			l := lib.IntN(t, 2, 8, "runLen")
			if s+l > len(c.Doc) {
				l = len(c.Doc) - s
			}
			c.Doc = append(c.Doc, c.Doc[s:s+l]...)
		} else {
			c.Doc = append(c.Doc, lib.IntN(t, 0, c.Vocab-1, "word"))
		}
	}
	// input: noise, then the document with edits, then noise
	in := lib.Ints(t, 0, 10, 0, c.Vocab-1, "prefix")
	for i := 0; i < len(c.Doc); i++ {
		switch lib.Weighted(t, []int{78, 6, 6, 5, 5}, "edit") {
		case 0:
			in = append(in, c.Doc[i])
		case 1: // deletion
		case 2:
			in = append(in, -lib.IntN(t, 1, 600, "oov"), c.Doc[i])
		case 3:
			in = append(in, lib.IntN(t, 0, c.Vocab-1, "sub"))
		case 4: // a short run from elsewhere in the document is inserted
			s := lib.IntN(t, 0, len(c.Doc)-1, "moveFrom")
			e := s + lib.IntN(t, 1, 4, "moveLen")
			if e > len(c.Doc) {
				e = len(c.Doc)
			}
			in = append(in, c.Doc[s:e]...)
			in = append(in, c.Doc[i])
		}
	}
	in = append(in, lib.Ints(t, 0, 10, 0, c.Vocab-1, "suffix")...)
	c.Input = in
	return c
}

func c04RepCheck(ci interface{}) lib.Outcome {
	c := ci.(*c04Rep)
	if c.Vocab < 1 || c.Vocab > 64 || !(c.Thr > 0 && c.Thr <= 1) || len(c.Doc) == 0 || len(c.Doc) > 2000 || len(c.Input) > 5000 {
		return lib.Outcome{Skip: "malformed"}
	}
	doc := []byte(c04RepWords(c.Doc, c.Vocab))
	in := []byte(c04RepWords(c.Input, c.Vocab))
	build := func() *Classifier {
		cl := NewClassifier(c.Thr)
		cl.AddContent("License", "Rep", "license.txt", doc)
		return cl
	}
	cl := build()
	first := cl.Match(in)
	fs := resultString(first)
	times := c.Times
	if times < 2 || times > 200 {
		times = 25
	}
	for k := 1; k < times; k++ {
		cc := cl
		if k%3 == 0 {
			cc = build() // a separately built instance must agree as well
		}
		switch k % 5 {
		case 1: // tracing enabled for this license (thread-safe no-op tracer): must not change the result
			cc.SetTraceConfiguration(&TraceConfiguration{TracePhases: "tokenize", TraceLicenses: "*", Tracer: func(string, ...interface{}) {}})
		case 2:
			cc.SetTraceConfiguration(&TraceConfiguration{TracePhases: "*", TraceLicenses: "License/Rep/license.txt", Tracer: func(string, ...interface{}) {}})
		case 3:
			cc.SetTraceConfiguration(nil)
		}
		got := cc.Match(in)
		if s := resultString(got); s != fs {
			return lib.Outcome{Violation: fmt.Sprintf("threshold %v, document %q, input %q: call %d differs from call 1\n%s", c.Thr, doc, in, k+1, diffResults(first, got))}
		}
	}
	lic := len(licensesOnly(rawList(first)))
	return lib.Outcome{Nontrivial: lic > 0, FP: fmt.Sprintf("%v|%v|%v|%d", c.Thr, c.Doc, c.Input, c.Vocab),
		Sample: map[string]interface{}{"threshold": c.Thr, "vocabulary": c.Vocab, "document_words": len(c.Doc), "input_words": len(c.Input), "result": fmtRecs(rawList(first))}}
}

func TestVerif_C04_Repetitive(t *testing.T) {
	lib.Run(t, lib.Spec{ID: "C04", Part: "repetitive",
		Rule: "a corpus of one synthetic document over a vocabulary of 6-24 words that repeats its own word runs (copy-pasted runs of 2-8 words), thresholds 0.5-0.8; input = the document with deletions, OOV insertions, substitutions and inserted runs, in noise; Match is repeated 25 times on the same classifier and on separately built instances, with tracing switched on and off in between: all calls identical; non-trivial = a license match is reported",
		New:  func() interface{} { return &c04Rep{} }, Gen: c04RepGen, Check: c04RepCheck})
}

// ------------------------------------------------------------------ nested documents

// Corpus documents that are contained in other corpus documents (a license whose last paragraph is a corpus header,
// a notice that is one line of a license ...): the candidates overlap, tie or contain each other, so any decision that
// depends on the order in which the corpus map is visited shows up as run-to-run differences.
type c04Nest struct {
	Thr    float64  `json:"thr"`
	Lines  [][]int  `json:"lines"`  // the big document: word indices per line
	Smalls [][2]int `json:"smalls"` // further documents: line ranges [from,to] of the big one
	Input  int      `json:"input"`  // 0 verbatim, 1 behind a line of other words, 2 one word replaced, 3 followed by a line of other words
	Sub    int      `json:"sub"`
	Times  int      `json:"times"`
}

func c04NestWord(k int) string {
	return fmt.Sprintf("nw%c%c", 'a'+byte(k%26), 'a'+byte((k/26)%26))
}

func c04NestGen(t *rapid.T) interface{} {
	c := &c04Nest{Thr: lib.PickFloat(t, []float64{0.5, 0.7, 0.8, 0.8, 0.9, 1.0}, "thr"), Times: 30, Input: lib.Weighted(t, []int{55, 15, 15, 15}, "input"), Sub: lib.IntN(t, 0, 500, "sub")}
	nl := lib.IntN(t, 2, 8, "nlines")
	for i := 0; i < nl; i++ {
		c.Lines = append(c.Lines, lib.Ints(t, 5, 14, 0, 59, "line"))
	}
	ns := lib.IntN(t, 1, 3, "nsmalls")
	for i := 0; i < ns; i++ {
		var a, b int
		switch lib.Weighted(t, []int{40, 25, 35}, "which") {
		case 0:
			a, b = nl-1, nl-1
		case 1:
			a, b = 0, 0
		default:
			a = lib.IntN(t, 0, nl-1, "from")
			b = a + lib.IntN(t, 0, 1, "more")
			if b > nl-1 {
				b = nl - 1
			}
		}
		c.Smalls = append(c.Smalls, [2]int{a, b})
	}
	return c
}

func c04NestCheck(ci interface{}) lib.Outcome {
	c := ci.(*c04Nest)
	if len(c.Lines) < 1 || len(c.Lines) > 40 || len(c.Smalls) > 8 || !(c.Thr > 0 && c.Thr <= 1) {
		return lib.Outcome{Skip: "malformed"}
	}
	text := func(from, to int) string {
		var sb strings.Builder
		for l := from; l <= to; l++ {
			for i, w := range c.Lines[l] {
				if i > 0 {
					sb.WriteByte(' ')
				}
				sb.WriteString(c04NestWord(((w % 60) + 60) % 60))
			}
			sb.WriteByte('\n')
		}
		return sb.String()
	}
	files := []corpusFile{{Cat: "License", Name: "Big", Variant: "license.txt", Content: []byte(text(0, len(c.Lines)-1))}}
	for i, s := range c.Smalls {
		if s[0] < 0 || s[1] < s[0] || s[1] >= len(c.Lines) {
			return lib.Outcome{Skip: "malformed"}
		}
		files = append(files, corpusFile{Cat: []string{"Header", "License", "Supplement"}[i%3], Name: fmt.Sprintf("Small%d", i), Variant: "header.txt", Content: []byte(text(s[0], s[1]))})
	}
	in := text(0, len(c.Lines)-1)
	switch c.Input {
	case 1:
		in = "zzqa zzqb zzqc zzqd zzqe\n" + in
	case 2:
		f := strings.Fields(in)
		k := c.Sub % len(f)
		in = strings.Replace(in, f[k], "zzsub", 1)
	case 3:
		in = in + "zzqa zzqb zzqc zzqd zzqe\n"
	}
	build := func(rot int) *Classifier {
		cl := NewClassifier(c.Thr)
		for i := range files {
			f := files[(i+rot)%len(files)]
			cl.AddContent(f.Cat, f.Name, f.Variant, f.Content)
		}
		return cl
	}
	cl := build(0)
	first := cl.Match([]byte(in))
	fs := resultString(first)
	times := c.Times
	if times < 2 || times > 200 {
		times = 30
	}
	for k := 1; k < times; k++ {
		cc := cl
		if k%3 == 0 {
			cc = build(k / 3)
		}
		got := cc.Match([]byte(in))
		if s := resultString(got); s != fs {
			return lib.Outcome{Violation: fmt.Sprintf("threshold %v, corpus: Big = %q and %d documents that are line ranges %v of it, input kind %d: call %d differs from call 1\n%s", c.Thr, files[0].Content, len(c.Smalls), c.Smalls, c.Input, k+1, diffResults(first, got))}
		}
	}
	lic := len(licensesOnly(rawList(first)))
	classes := []string{fmt.Sprintf("input-kind-%d", c.Input)}
	if lic > 1 {
		classes = append(classes, "several-nested-matches-reported")
	}
	return lib.Outcome{Nontrivial: lic > 0, Classes: classes, FP: fmt.Sprintf("%v|%v|%v|%d|%d", c.Thr, c.Lines, c.Smalls, c.Input, c.Sub),
		Sample: map[string]interface{}{"threshold": c.Thr, "lines": len(c.Lines), "nested_documents": c.Smalls, "input_kind": c.Input, "result": fmtRecs(rawList(first))}}
}

func TestVerif_C04_Nested(t *testing.T) {
	lib.Run(t, lib.Spec{ID: "C04", Part: "nested-documents",
		Rule: "a corpus of one synthetic document of 2-8 lines and 1-3 further documents that are line ranges of it (preferably its last or first line); input = the big document verbatim / behind or before a line of other words / with one word replaced; Match is repeated 30 times on the same classifier and on separately built instances with rotated insertion order: all calls identical; non-trivial = a license match is reported",
		New:  func() interface{} { return &c04Nest{} }, Gen: c04NestGen, Check: c04NestCheck})
}

// ------------------------------------------------------------------ rare words replaced, repeated

// The words that set one license apart from its neighbours (names, "acknowledgment", "library", "affero" ...) are the
// ones special rules in the scorer look at. Every corpus document is matched with one of its rarest words (by
// document frequency over the corpus) replaced by an unrelated word, several times in a row: the answer may be
// anything, but it has to be the same answer every time.
type c04Rare struct {
	Doc   int `json:"doc"`
	Rank  int `json:"rank"` // the Rank-th rarest word of the document is replaced
	Times int `json:"times"`
}

var (
	c04DFOnce sync.Once
	c04DF     map[string]int
)

func c04DocFreq() map[string]int {
	c04DFOnce.Do(func() {
		c04DF = map[string]int{}
		for _, f := range assets() {
			seen := map[string]bool{}
			for _, w := range strings.Fields(strings.ToLower(string(f.Content))) {
				w = strings.Trim(w, ".,;:()\"'[]<>*")
				if len(w) >= 3 && !seen[w] {
					seen[w] = true
					c04DF[w]++
				}
			}
		}
	})
	return c04DF
}

func c04RareWords(content []byte) []string {
	df := c04DocFreq()
	seen := map[string]bool{}
	var ws []string
	for _, w := range strings.Fields(strings.ToLower(string(content))) {
		w = strings.Trim(w, ".,;:()\"'[]<>*")
		if len(w) >= 3 && !seen[w] && asciiLetters(w) == w {
			seen[w] = true
			ws = append(ws, w)
		}
	}
	sort.Slice(ws, func(i, j int) bool {
		if df[ws[i]] != df[ws[j]] {
			return df[ws[i]] < df[ws[j]]
		}
		return ws[i] < ws[j]
	})
	return ws
}

func c04RareEnum(yield func(interface{}) bool) {
	shard, nshards := lib.EnvInt("VERIF_SHARD", 0), lib.EnvInt("VERIF_NSHARDS", 1)
	ranks, times := 5, 5
	if lib.Tier() == "thorough" {
		ranks, times = 12, 10
	}
	idx := 0
	for d, f := range assets() {
		if len(f.Content) > 40000 && lib.Tier() != "thorough" {
			continue
		}
		for r := 0; r < ranks; r++ {
			idx++
			if idx%nshards != shard {
				continue
			}
			if !yield(&c04Rare{Doc: d, Rank: r, Times: times}) {
				return
			}
		}
	}
}

func c04RareCheck(ci interface{}) lib.Outcome {
	c := ci.(*c04Rare)
	a := assets()
	if c.Doc < 0 || c.Doc >= len(a) || c.Rank < 0 || c.Times < 2 || c.Times > 100 {
		return lib.Outcome{Skip: "malformed"}
	}
	f := a[c.Doc]
	ws := c04RareWords(f.Content)
	if c.Rank >= len(ws) {
		return lib.Outcome{Skip: "document-has-fewer-distinct-words"}
	}
	word := ws[c.Rank]
	cl := classifierFor(0.8, corpusSel{Full: true})
	re := regexp.MustCompile(`(?i)\b` + regexp.QuoteMeta(word) + `\b`)
	in := re.ReplaceAll(f.Content, []byte("zzreplacedword"))
	first := cl.Match(in)
	fs := resultString(first)
	for k := 1; k < c.Times; k++ {
		if got := cl.Match(in); resultString(got) != fs {
			return lib.Outcome{Violation: fmt.Sprintf("%s with the word %q replaced (document frequency %d): call %d on the same classifier differs from call 1\n%s", f.key(), word, c04DocFreq()[word], k+1, diffResults(first, got))}
		}
	}
	lic := licensesOnly(rawList(first))
	own := false
	for _, m := range lic {
		if m.Name == f.Name {
			own = true
		}
	}
	classes := []string{}
	if !own {
		classes = append(classes, "own-license-no-longer-reported")
	}
	return lib.Outcome{Nontrivial: true, Classes: classes, Sample: map[string]interface{}{"document": f.key(), "word": word, "df": c04DocFreq()[word], "result": fmtRecs(rawList(first))}}
}

func TestVerif_C04_RareWords(t *testing.T) {
	lib.Run(t, lib.Spec{ID: "C04", Part: "rare-word-substitution",
		Rule: "every embedded document with one of its 5 (quick) / 12 (thorough) rarest words (document frequency over the corpus) replaced by an unrelated word, matched 5 / 10 times in a row on the full corpus at 0.8: all calls identical (whatever the answer is); non-trivial = every case",
		New:  func() interface{} { return &c04Rare{} }, Enum: c04RareEnum, Check: c04RareCheck, Exhaustive: true})
}
