//go:build verif

package classifier

// C03: nothing below the threshold is reported; every result is well formed.

import (
	"bytes"
	"fmt"
	"strings"
	"testing"

	"pgregory.net/rapid"
	"verif/lib"
)

type c03Case struct {
	Thr    float64   `json:"thr"`
	Corpus corpusSel `json:"corpus"`
	In     recipe    `json:"in"`
	// Tie: two synthetic documents of N and N+D distinct words; the input holds a copy of each with the same number
	// of changed words, so the two confidences differ by about C*D/N^2 (far below any "rounding" tolerance, yet
	// different). Corpus and In are ignored.
	Tie *c03Tie `json:"tie,omitempty"`
}

type c03Tie struct {
	N        int  `json:"n"`
	D        int  `json:"d"`
	Changes  int  `json:"changes"`
	P        int  `json:"p"`
	BigFirst bool `json:"bigFirst"`
}

func c03TieDoc(prefix string, n int) []string {
	w := make([]string, n)
	for i := range w {
		w[i] = fmt.Sprintf("%s%c%c%c", prefix, 'a'+i%26, 'a'+(i/26)%26, 'a'+(i/676)%26)
	}
	return w
}

func (tc *c03Tie) build() ([]corpusFile, []byte) {
	a, b := c03TieDoc("qa", tc.N), c03TieDoc("qb", tc.N+tc.D)
	files := []corpusFile{{Cat: "License", Name: "TieSmall", Variant: "license.txt", Content: []byte(strings.Join(a, " "))},
		{Cat: "License", Name: "TieBig", Variant: "license.txt", Content: []byte(strings.Join(b, " "))}}
	edit := func(w []string) string {
		c := append([]string{}, w...)
		for k := 0; k < tc.Changes; k++ {
			c[(tc.P+k*37)%len(c)] = fmt.Sprintf("zzoov%czz", 'a'+k%26)
		}
		// 12 words per line
		var sb strings.Builder
		for i, x := range c {
			sb.WriteString(x)
			if i%12 == 11 {
				sb.WriteByte('\n')
			} else {
				sb.WriteByte(' ')
			}
		}
		return sb.String()
	}
	first, second := edit(a), edit(b)
	if tc.BigFirst {
		first, second = second, first
	}
	return files, []byte(first + "\n\nfiller line between the copies\n\n" + second + "\n")
}

var c03NamePool = []string{"", ".", "..", " ", "a b", "License", "Header", "x.txt", "naïve", "日本", "a.b.c", "-", "v1", "Copyright", "*", "%s", "\t"}

var c03Fragments = []string{"-\n", "-\n-\n-\n", "\n\n\n", "a-\n\n\nb", "word-\n   next", "&amp;", "&#0;", "(c)", "copyright 2020 foo\n", "Copyright (c) 2001 Bar\n",
	"2019-03-14\n", "1. ", "a) ", "\r\n", "\xff\xfe", "\xf4\x90\x80\x80", "\x00", "·", "*", "©", "the software is provided as is without warranty of any kind",
	"permission is hereby granted free of charge to any person obtaining a copy", "licensed under the apache license version 2.0", "https://", " - \n", "word--\n", "soft---\nware\n", "a\u2014-\nb", "end--\n", "x--\n\n"}

func genHostileText(t *rapid.T) []byte {
	var buf bytes.Buffer
	n := lib.IntN(t, 0, 30, "nfrag")
	for i := 0; i < n; i++ {
		switch lib.IntN(t, 0, 3, "fragKind") {
		case 0:
			buf.WriteString(lib.PickStr(t, c03Fragments, "frag"))
		case 1:
			buf.Write(lib.Bytes(t, 0, 12, "bytes"))
		case 2:
			buf.WriteString(lib.PickStr(t, synthVocab, "word"))
			buf.WriteByte(' ')
		case 3:
			a := assets()
			d := a[lib.IntN(t, 0, len(a)-1, "doc")].Content
			if len(d) > 0 {
				s := lib.IntN(t, 0, len(d)-1, "from")
				e := s + lib.IntN(t, 1, 400, "len")
				if e > len(d) {
					e = len(d)
				}
				buf.Write(d[s:e])
			}
		}
	}
	return buf.Bytes()
}

func c03Gen(t *rapid.T) interface{} {
	c := &c03Case{}
	if lib.IntN(t, 0, 11, "tie") == 0 {
		c.Thr = lib.PickFloat(t, []float64{0.5, 0.8, 0.9, 0.99}, "tieThr")
		c.Tie = &c03Tie{N: lib.IntN(t, 200, 3000, "tieN"), D: lib.IntN(t, 1, 3, "tieD"), Changes: lib.IntN(t, 1, 2, "tieChanges"), P: lib.IntN(t, 0, 2999, "tieP"), BigFirst: lib.Bool(t, "tieBigFirst")}
		return c
	}
	switch lib.Weighted(t, []int{35, 35, 30}, "corpusKind") {
	case 0:
		c.Corpus = corpusSel{Full: true}
		c.Thr = fullThreshold(t, 0.7)
	case 1:
		c.Thr = c03Threshold(t)
	case 2: // tiny synthetic corpus with awkward category/name/variant strings
		c.Thr = c03Threshold(t)
		n := lib.IntN(t, 0, 4, "ntiny")
		for i := 0; i < n; i++ {
			d := genSynthDoc(t, i, 0, 20)
			d.Cat, d.Name, d.Variant = lib.PickStr(t, c03NamePool, "cat"), lib.PickStr(t, c03NamePool, "name"), lib.PickStr(t, c03NamePool, "variant")
			c.Corpus.Synth = append(c.Corpus.Synth, d)
		}
	}
	inputKind := lib.Weighted(t, []int{50, 30, 20}, "inputKind")
	if c.Thr < 0.3 && !c.Corpus.Full {
		// with q = 1 every word is a q-gram: candidate search is quadratic in the text sizes (a cost, not a
		// well-formedness, question; one such case on a 1500-word input takes 90 s), so very low thresholds are
		// combined with short inputs and short documents only
		inputKind = 1
	}
	switch inputKind {
	case 0:
		c.In = genRecipe(t, c.Thr)
	case 1:
		c.In = recipe{Segs: []seg{{Kind: "raw", Raw: genHostileText(t)}}}
	case 2:
		r := genRecipe(t, c.Thr)
		r.Segs = append(r.Segs, seg{Kind: "raw", Raw: genHostileText(t)})
		c.In = r
	}
	if !c.Corpus.Full && len(c.Corpus.Synth) == 0 {
		if c.Thr < 0.3 {
			// short real documents only
			var short []int
			for i, f := range assets() {
				if len(f.Content) < 1500 {
					short = append(short, i)
				}
			}
			n := lib.IntN(t, 1, 6, "nshort")
			for i := 0; i < n; i++ {
				c.Corpus.Docs = append(c.Corpus.Docs, short[lib.IntN(t, 0, len(short)-1, "shortDoc")])
			}
			// and make them matchable: the input contains one of them, lightly edited
			c.In.Segs = append(c.In.Segs, seg{Kind: "doc", Doc: c.Corpus.Docs[0], Edits: genEdits(t, 100, 300)})
		} else {
			c.Corpus = smallCorpusAround(t, c.In.docs())
		}
	} else if len(c.Corpus.Synth) > 0 && lib.Bool(t, "useSynthAsInput") {
		// make the tiny corpus matchable: the input contains the synthetic documents themselves
		for _, d := range c.Corpus.Synth {
			c.In.Segs = append(c.In.Segs, seg{Kind: "raw", Raw: []byte(d.Text + "\n")})
		}
	}
	return c
}

func c03Threshold(t *rapid.T) float64 {
	switch lib.IntN(t, 0, 3, "thrKind") {
	case 0:
		return lib.PickFloat(t, []float64{1e-9, 0.01, 0.1, 0.3, 0.49, 0.5, 0.51}, "lowThr")
	case 1:
		return lib.Float(t, 0.0000001, 1.0, "thr")
	}
	return genThreshold(t, 0.7)
}

func c03WellFormed(cl *Classifier, thr float64, files []corpusFile, input []byte, res Results) string {
	triples := map[string]bool{}
	for _, f := range files {
		triples[f.Cat+"\x00"+f.Name+"\x00"+f.Variant] = true
	}
	maxLines := 1 + countNL(input)
	ntok := len(ids(cl, input))
	for i, m := range res.Matches {
		desc := fmt.Sprintf("match %d: %s/%s/%s conf=%v lines=%d-%d tokens=%d-%d (TotalInputLines=%d, input has %d lines and %d words, threshold %v)",
			i, m.MatchType, m.Name, m.Variant, m.Confidence, m.StartLine, m.EndLine, m.StartTokenIndex, m.EndTokenIndex, res.TotalInputLines, maxLines, ntok, thr)
		if i > 0 && res.Matches[i-1].Confidence < m.Confidence {
			return "matches not ordered by non-increasing confidence at " + desc
		}
		if m.MatchType == "Copyright" && m.Name == "Copyright" && !triples["Copyright\x00Copyright\x00"+m.Variant] {
			if m.Confidence != 1.0 {
				return "Copyright pseudo-match without confidence 1.0: " + desc
			}
			if m.StartLine != m.EndLine || m.StartLine < 1 || m.StartLine > maxLines {
				return "Copyright pseudo-match not on one line inside the input: " + desc
			}
			continue
		}
		if !(m.Confidence >= thr) || !(m.Confidence <= 1.0) {
			return "confidence outside [threshold, 1]: " + desc
		}
		if !triples[m.MatchType+"\x00"+m.Name+"\x00"+m.Variant] {
			return "(MatchType, Name, Variant) was never added to the corpus: " + desc
		}
		if !(1 <= m.StartLine && m.StartLine <= m.EndLine && m.EndLine <= res.TotalInputLines && res.TotalInputLines <= maxLines) {
			return "line numbers violate 1 <= StartLine <= EndLine <= TotalInputLines <= lines of input: " + desc
		}
		if !(0 <= m.StartTokenIndex && m.StartTokenIndex <= m.EndTokenIndex && m.EndTokenIndex < ntok) {
			return "token indices violate 0 <= Start <= End < words of input: " + desc
		}
	}
	return ""
}

func c03Check(ci interface{}) lib.Outcome {
	c := ci.(*c03Case)
	if !(c.Thr > 0 && c.Thr <= 1) {
		return lib.Outcome{Skip: "malformed"}
	}
	for _, d := range c.Corpus.Synth {
		if strings.ContainsRune(d.Cat+d.Name+d.Variant, '/') {
			return lib.Outcome{Skip: "malformed"}
		}
	}
	if c.Tie != nil {
		tc := c.Tie
		if tc.N < 20 || tc.N > 5000 || tc.D < 1 || tc.D > 100 || tc.Changes < 1 || tc.Changes > 5 || tc.P < 0 {
			return lib.Outcome{Skip: "malformed"}
		}
		files, input := tc.build()
		cl := buildClassifier(c.Thr, files)
		res := cl.Match(input)
		desc := fmt.Sprintf("two synthetic documents of %d and %d distinct words, each copied with %d changed word(s), bigger copy first=%v, threshold %v", tc.N, tc.N+tc.D, tc.Changes, tc.BigFirst, c.Thr)
		if msg := c03WellFormed(cl, c.Thr, files, input, res); msg != "" {
			return lib.Outcome{Violation: desc + ": " + msg}
		}
		o := lib.Outcome{Classes: []string{"near-tie-of-confidences"}, Nontrivial: len(res.Matches) == 2 && res.Matches[0].Confidence != res.Matches[1].Confidence}
		if o.Nontrivial {
			o.FP = desc
			o.Sample = map[string]interface{}{"case": desc, "matches": fmtRecs(rawList(res))}
		}
		return o
	}
	cl := classifierFor(c.Thr, c.Corpus)
	input := c.In.build(cl)
	res := cl.Match(input)
	classes := recipeClasses(c.In)
	if msg := c03WellFormed(cl, c.Thr, c.Corpus.files(), input, res); msg != "" {
		return lib.Outcome{Violation: msg, Classes: classes}
	}
	// a result stays what it was: later calls (any classifier) must not reach into it
	snapshot := resultString(res)
	other := assets()[len(input)%len(assets())].Content
	cl.Match(other)
	classifierFor(0.8, smallFixedCorpus()).Match(other)
	if resultString(res) != snapshot {
		return lib.Outcome{Violation: fmt.Sprintf("the Results returned for the input changed after a later Match call on another input\nbefore:\n%safter:\n%s", snapshot, resultString(res)), Classes: classes}
	}
	nlic, ncr := 0, 0
	for _, m := range res.Matches {
		if m.MatchType == "Copyright" {
			ncr++
		} else {
			nlic++
		}
	}
	if ncr > 0 {
		classes = append(classes, "with-copyright-entries")
	}
	if nlic > 1 {
		classes = append(classes, "several-license-matches")
	}
	if c.Thr < 0.5 {
		classes = append(classes, "threshold-below-0.5")
	}
	if len(c.Corpus.Synth) > 0 {
		classes = append(classes, "tiny-awkward-corpus")
	}
	o := lib.Outcome{Classes: classes, Nontrivial: len(res.Matches) > 0}
	if o.Nontrivial {
		o.FP = fmt.Sprintf("%v|%s|%d|%d", c.Thr, c.In.describe(), len(input), len(res.Matches))
		o.Sample = map[string]interface{}{"threshold": c.Thr, "input": c.In.describe(), "input_head": lib.Preview(input, 80), "matches": fmtRecs(rawList(res))}
	}
	return o
}

func TestVerif_C03(t *testing.T) {
	lib.Run(t, lib.Spec{ID: "C03", Part: "well-formed",
		Rule: "inputs: license recipes (as C02), hostile byte/fragment mixes (hyphen-newline storms, notices, invalid UTF-8, entities, slices of corpus texts) and both combined; corpora: full (menu thresholds), small (thresholds in (0,1] incl. 1e-9..0.51), tiny synthetic with awkward category/name/variant strings (empty, dots, blanks, Unicode); non-trivial = result has at least one match; distinct = distinct (threshold, recipe, input length, number of matches)",
		New:  func() interface{} { return &c03Case{} }, Gen: c03Gen, Check: c03Check})
}
