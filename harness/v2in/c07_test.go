//go:build verif

package classifier

// C07: detection does not depend on position or on surrounding unrelated text.
// Metamorphic oracle: Match(P+X+S) == Match(X) shifted by |P| tokens and lines(P) lines.

import (
	"bytes"
	"fmt"
	"regexp"
	"strings"
	"testing"
	"unicode/utf8"

	"pgregory.net/rapid"
	"verif/lib"
)

type c07Case struct {
	Thr    float64   `json:"thr"`
	Corpus corpusSel `json:"corpus"`
	X      recipe    `json:"x"`
	PWords int       `json:"pw"`
	PLines int       `json:"pl"`
	SWords int       `json:"sw"`
	SLines int       `json:"sl"`
	// SynthN > 0: X is a synthetic document of SynthN distinct words (added to the corpus) from which SynthDrop words
	// are missing at the head (or tail): partial copies right at the threshold boundary, where rounding slips in the
	// candidate search show.
	// PStyle 1: the lines of the prefix / suffix blocks start with list markers (1. 2) 2.0. 10.2) iv. a.), which the
	// tokenizer drops at a line start: still unrelated text without any word of its own.
	PStyle    int  `json:"ps,omitempty"`
	SynthN    int  `json:"sn,omitempty"`
	SynthDrop int  `json:"sd,omitempty"`
	SynthTail bool `json:"st,omitempty"`
	// PadBytes blanks in front of the prefix block: moves every byte of X to another offset without adding a word or a line.
	PadBytes int `json:"pad,omitempty"`
	// Trace > 0 (small corpora only): both Match calls run with tracing switched on (no-op tracer; 1 = everything,
	// 2 = scoring of every license): tracing must not change what is found, alone or in context.
	Trace int `json:"trace,omitempty"`
}

var c07Markers = []string{"1.", "2)", "2.0.", "10.2)", "iv.", "a.", "3.", "2.1.", "12)", "b."}

var c07MarkerLike = regexp.MustCompile(`^\(?([0-9]+(\.[0-9]+)*|[a-r]|[ivx]+)[.):]$`)

// c07MarkersIn collects words of x that look like list markers but do not stand at a line start.
func c07MarkersIn(x []byte) []string {
	seen := map[string]bool{}
	var out []string
	for _, l := range strings.Split(string(x), "\n") {
		f := strings.Fields(l)
		for i, w := range f {
			if i == 0 || seen[w] || !c07MarkerLike.MatchString(strings.ToLower(w)) {
				continue
			}
			// a marker must start with a character the tokenizer starts a word at, and be dropped at a line start
			if w[0] == '(' {
				continue
			}
			seen[w] = true
			out = append(out, w)
		}
	}
	return out
}

func c07Numbered(block []byte, fromX []string) []byte {
	if len(block) == 0 {
		return block
	}
	markers := append(append([]string{}, fromX...), c07Markers...)
	ls := strings.Split(strings.TrimSuffix(string(block), "\n"), "\n")
	for i := range ls {
		ls[i] = markers[i%len(markers)] + " " + ls[i]
	}
	return []byte(strings.Join(ls, "\n") + "\n")
}

func c07SynthWords(n int) []string {
	out := make([]string, n)
	for i := range out {
		out[i] = fmt.Sprintf("syn%c%c%cq", 'a'+byte(i%26), 'a'+byte((i/26)%26), 'a'+byte((i/676)%26))
	}
	return out
}

func c07JoinLines(w []string) string {
	var sb strings.Builder
	for i, x := range w {
		sb.WriteString(x)
		if (i+1)%10 == 0 || i == len(w)-1 {
			sb.WriteByte('\n')
		} else {
			sb.WriteByte(' ')
		}
	}
	return sb.String()
}

func c07Gen(t *rapid.T) interface{} {
	c := &c07Case{}
	c.Corpus, c.Thr = genCorpusThr(t, 0.7, 6)
	c.X = genRecipe(t, c.Thr)
	if !c.Corpus.Full {
		c.Corpus = smallCorpusAround(t, c.X.docs())
		if lib.IntN(t, 0, 3, "traced") == 0 {
			c.Trace = lib.IntN(t, 1, 2, "traceKind")
		}
	}
	if lib.IntN(t, 0, 6, "synthetic") == 0 {
		c.Corpus = smallCorpusAround(t, nil)
		c.Thr = lib.PickFloat(t, []float64{0.7, 0.75, 0.8, 0.8, 0.85, 0.9, 0.95}, "synthThr")
		c.SynthN = lib.IntN(t, 20, 240, "synthN")
		c.SynthDrop = int(float64(c.SynthN)*(1-c.Thr)) + lib.IntN(t, -1, 1, "synthDropDelta")
		if c.SynthN-int(float64(c.SynthN)*c.Thr) > 0 && lib.Bool(t, "exactMargin") {
			c.SynthDrop = c.SynthN - int(float64(c.SynthN)*c.Thr) // the largest number of missing words that can still match
		}
		if c.SynthDrop < 0 {
			c.SynthDrop = 0
		}
		c.SynthTail = lib.IntN(t, 0, 2, "synthTail") == 0
		c.X = recipe{}
	}
	blk := func(label string) (int, int) {
		var w int
		switch lib.Weighted(t, []int{20, 110, 50, 20, 3}, label+"Size") {
		case 4: // more distinct words than any 16-bit-ish table or "large enough" scratch capacity holds
			w = lib.IntN(t, 16000, 40000, label+"Words")
		case 0:
			return 0, 0
		case 1:
			w = lib.IntN(t, 1, 40, label+"Words")
		case 2:
			w = lib.IntN(t, 41, 400, label+"Words")
		case 3:
			w = lib.IntN(t, 401, 3000, label+"Words")
		}
		l := lib.IntN(t, 1, 200, label+"Lines")
		if l > w {
			l = w
		}
		return w, l
	}
	c.PWords, c.PLines = blk("prefix")
	c.SWords, c.SLines = blk("suffix")
	if lib.IntN(t, 0, 3, "numberedBlocks") == 0 {
		c.PStyle = 1
	} else if lib.IntN(t, 0, 3, "hyphenatedPrefixEnd") == 0 {
		c.PStyle = 2
		// X then starts with a notice line or a line whose second word looks like a list marker
		c.X.Segs = append([]seg{{Kind: "raw", Raw: []byte(lib.PickStr(t, []string{"Copyright (c) 2020 Example Corp\n\n", "Copyright 2019 Foo Inc.\n", "zqsection 2. zqfoo zqbar\n", "2019-03-14\n"}, "xFirstLine"))}}, c.X.Segs...)
	}
	if c.PWords == 0 && c.SWords == 0 {
		c.PWords, c.PLines = 7, 2
	}
	return c
}

func c07Check(ci interface{}) lib.Outcome {
	c := ci.(*c07Case)
	if c.Thr < 0.5 || c.Thr > 1 || c.PWords < 0 || c.SWords < 0 || c.PWords > 100000 || c.SWords > 100000 {
		return lib.Outcome{Skip: "malformed"}
	}
	if c.SynthN > 0 {
		if c.SynthN > 5000 || c.SynthDrop < 0 || c.SynthDrop >= c.SynthN {
			return lib.Outcome{Skip: "malformed"}
		}
		c.Corpus.Synth = []synthDoc{{Cat: "License", Name: "Synth-C07", Variant: "license.txt", Text: c07JoinLines(c07SynthWords(c.SynthN))}}
	}
	cl := classifierFor(c.Thr, c.Corpus)
	x := c.X.build(cl)
	if c.SynthN > 0 {
		w := c07SynthWords(c.SynthN)
		if c.SynthTail {
			x = []byte(c07JoinLines(w[:c.SynthN-c.SynthDrop]))
		} else {
			x = []byte(c07JoinLines(w[c.SynthDrop:]))
		}
	}
	pw := c.PWords
	p := []byte(oovBlock(cl, 300000, c.PWords, c.PLines))
	if c.PStyle == 2 {
		// the prefix ends in an unrelated word that is hyphenated over a line break, its remainder being the last
		// word before X: whatever the tokenizer keeps in mind about that word must not reach into X
		p = append(p, []byte("zqhyphena-\nzqted\n")...)
		pw++
	}
	s := []byte(oovBlock(cl, 400000, c.SWords, c.SLines))
	if c.PadBytes > 0 && c.PadBytes <= 1<<16 {
		p = append(bytes.Repeat([]byte{' '}, c.PadBytes), p...)
	}
	if c.PStyle == 1 {
		// prefer markers that also occur inside X (not at a line start there): "Section 2) in", "(see 10.2)" ...
		mk := c07MarkersIn(x)
		p, s = c07Numbered(p, mk), c07Numbered(s, mk)
	}
	if len(x) > 0 && x[len(x)-1] != '\n' {
		x = append(x, '\n')
	}
	tx := ids(cl, x)
	classes := recipeClasses(c.X)
	if c.SynthN > 0 {
		classes = append(classes, "synthetic-partial-copy-at-threshold-boundary")
	}
	if len(tx) < refQ(c.Thr) || len(tx) == 0 {
		return lib.Outcome{Skip: "x-shorter-than-q", Classes: classes}
	}
	full := append(append(append([]byte{}, p...), x...), s...)
	tf := ids(cl, full)
	// The blocks are unrelated text by construction (verified on their own: every word unknown). Whether X is read
	// the same way behind / in front of them is part of the property, so a difference at token level is a violation,
	// not a failed premise. The only legitimate interaction is a hyphen at the very end of X, which joins the first
	// word of S (then the case is out of domain).
	dLine := countNL(p)
	for _, blk := range [][]byte{p, s} {
		for _, tk := range ids(cl, blk) {
			if tk.ID != unknownIndex {
				return lib.Outcome{Skip: "premise_failed", Classes: classes}
			}
		}
	}
	if t := bytes.TrimRight(x, " \t\r\n"); len(t) > 0 {
		if r, _ := utf8.DecodeLastRune(t); isDashRune(r) {
			return lib.Outcome{Skip: "x-ends-in-hyphen", Classes: classes}
		}
	}
	if len(ids(cl, p)) != pw || len(ids(cl, s)) != c.SWords {
		return lib.Outcome{Skip: "premise_failed", Classes: classes}
	}
	if len(tf) != pw+len(tx)+c.SWords {
		return lib.Outcome{Violation: fmt.Sprintf("threshold %v, X = %s: X has %d words on its own but %d words between a prefix of %d and a suffix of %d unrelated words", c.Thr, c.X.describe(), len(tx), len(tf)-pw-c.SWords, pw, c.SWords), Classes: classes}
	}
	for i, tk := range tf {
		switch {
		case i < pw || i >= pw+len(tx):
			if tk.ID != unknownIndex {
				return lib.Outcome{Violation: fmt.Sprintf("threshold %v, X = %s: word %d of the surrounding unrelated text became the known word %q", c.Thr, c.X.describe(), i, cl.dict.getWord(tk.ID)), Classes: classes}
			}
		default:
			if tk.ID != tx[i-pw].ID || tk.Line != tx[i-pw].Line+dLine {
				return lib.Outcome{Violation: fmt.Sprintf("threshold %v, X = %s: word %d of X is %q on line %d when X stands alone, but %q on line %d (expected line %d) behind a prefix of %d unrelated words on %d lines",
					c.Thr, c.X.describe(), i-pw, cl.dict.getWord(tx[i-pw].ID), tx[i-pw].Line, cl.dict.getWord(tk.ID), tk.Line, tx[i-pw].Line+dLine, pw, dLine), Classes: classes}
			}
		}
	}
	traced := c.Trace > 0 && !c.Corpus.Full
	if traced {
		tc := &TraceConfiguration{TracePhases: "*", TraceLicenses: "*", Tracer: func(string, ...interface{}) {}}
		if c.Trace%2 == 0 {
			tc = &TraceConfiguration{TracePhases: "score", TraceLicenses: "License/*,Header/*", Tracer: func(string, ...interface{}) {}}
		}
		cl.SetTraceConfiguration(tc)
	}
	rx := cl.Match(x)
	rf := cl.Match(full)
	if traced {
		cl.SetTraceConfiguration(nil)
		classes = append(classes, "traced")
	}
	want := shift(canon(rx), pw, dLine)
	got := canon(rf)
	if !equalRecs(want, got) {
		return lib.Outcome{Violation: fmt.Sprintf("threshold %v, X = %s (%d words), prefix %d words/%d lines, suffix %d words: Match(P+X+S) differs from Match(X) shifted by %d tokens / %d lines\nexpected:\n%sgot:\n%s",
			c.Thr, c.X.describe(), len(tx), pw, dLine, c.SWords, pw, dLine, fmtRecs(want), fmtRecs(got)), Classes: classes}
	}
	if c.SWords == 0 && len(rx.Matches) > 0 && rf.TotalInputLines != rx.TotalInputLines+dLine {
		return lib.Outcome{Violation: fmt.Sprintf("TotalInputLines %d, expected %d+%d", rf.TotalInputLines, rx.TotalInputLines, dLine), Classes: classes}
	}
	lic := licensesOnly(want)
	fuzzy := false
	for _, m := range lic {
		if m.Conf < 1 {
			fuzzy = true
		}
	}
	if len(lic) > 0 {
		if fuzzy {
			classes = append(classes, "fuzzy-match")
		} else {
			classes = append(classes, "exact-only")
		}
	}
	if len(lic) > 1 {
		classes = append(classes, "multi-license")
	}
	if pw > len(tx) {
		classes = append(classes, "prefix-longer-than-x")
	}
	if c.PStyle == 1 {
		classes = append(classes, "numbered-list-blocks")
	}
	if c.PStyle == 2 {
		classes = append(classes, "prefix-ends-in-hyphenated-word")
	}
	o := lib.Outcome{Classes: classes, Nontrivial: len(lic) > 0 && pw > 0}
	if o.Nontrivial {
		o.FP = fmt.Sprintf("%v|%s|%d|%d|%d|%d|%d|%v", c.Thr, c.X.describe(), pw, c.PLines, c.SWords, c.SynthN, c.SynthDrop, c.SynthTail)
		o.Sample = map[string]interface{}{"threshold": c.Thr, "x": c.X.describe(), "prefix_words": pw, "prefix_lines": dLine, "suffix_words": c.SWords, "matches_of_x": fmtRecs(canon(rx))}
	}
	return o
}

// c07EnumOffsets: every corpus document (up to 30 KB) with letters outside ASCII behind a prefix whose byte length
// is swept over one read-buffer length (stride 4 rotated by VERIF_SEED in quick, stride 1 in thorough).
func c07EnumOffsets(yield func(interface{}) bool) {
	shard, nshards := lib.EnvInt("VERIF_SHARD", 0), lib.EnvInt("VERIF_NSHARDS", 1)
	stride := 4
	if lib.Tier() == "thorough" {
		stride = 1
	}
	off := lib.EnvInt("VERIF_SEED", 1) % stride
	idx := 0
	for _, d := range c11NonASCIIDocs() {
		if len(assets()[d].Content) > 30000 {
			continue
		}
		for pad := off; pad < 1024; pad += stride {
			idx++
			if idx%nshards != shard {
				continue
			}
			if !yield(&c07Case{Thr: 0.8, Corpus: corpusSel{Docs: []int{d}}, X: recipe{Segs: []seg{{Kind: "doc", Doc: d}}}, PWords: 3 + pad%5, PLines: 1, SWords: 2, SLines: 1, PadBytes: pad}) {
				return
			}
		}
	}
}

func TestVerif_C07_Offsets(t *testing.T) {
	lib.Run(t, lib.Spec{ID: "C07", Part: "non-ascii-offset-sweep",
		Rule: "every corpus document (up to 30 KB) that contains letters outside ASCII, behind 0..1023 blanks (quick: every 4th width, rotated by VERIF_SEED; thorough: every width) and a few unrelated words; corpus = that document; same oracle as the embedding part",
		New:  func() interface{} { return &c07Case{} }, Enum: c07EnumOffsets, Exhaustive: true,
		Check: func(c interface{}) lib.Outcome { o := c07Check(c); o.FP = ""; return o }})
}

func TestVerif_C07(t *testing.T) {
	lib.Run(t, lib.Spec{ID: "C07", Part: "embedding",
		Rule: "X = pristine / edited / head- or tail-truncated corpus documents and scenario files, alone, in context or concatenated (>= q words), or a synthetic document of 20-240 distinct words (added to the corpus) with exactly the tolerated number of words (+-1) missing at its head / tail; P, S = blocks of 0-3000 verified OOV words on 1-200 lines (a quarter of them laid out as numbered lists whose markers the tokenizer drops); premise ids(P+X+S) = 0^|P| ids(X) 0^|S| (and lines) checked white-box; oracle: canonical Match(P+X+S) == Match(X) shifted; non-trivial = Match(X) has a license match and |P| > 0; distinct = distinct (threshold, X recipe, |P|, lines(P), |S|)",
		New:  func() interface{} { return &c07Case{} }, Gen: c07Gen, Check: c07Check})
}
