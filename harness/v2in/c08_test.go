//go:build verif

package classifier

// C08: MatchFrom equals Match however the reader fragments the bytes; leading
// padding (which moves every multi-byte rune across the read-buffer boundaries)
// changes nothing; a reader failure surfaces as that error with zero Results.

import (
	"bytes"
	"errors"
	"fmt"
	"io"
	"strings"
	"testing"
	"unicode/utf8"

	"pgregory.net/rapid"
	"verif/lib"
)

type c08Inj struct {
	Pos  int `json:"p"`
	Kind int `json:"k"`
}

type c08Input struct {
	X       recipe   `json:"x"`
	Typo    bool     `json:"typo"`    // typographic dashes and quotes everywhere (multi-byte runes inside words)
	Inject  []c08Inj `json:"inject"`  // byte strings spliced in at positions
	Every   int      `json:"every"`   // additionally splice a 4-byte rune word every N bytes (0 = off)
	LongRun int      `json:"longrun"` // insert one line of this many bytes without blanks (0 = off)
	// TruncEnd: the input is cut to less than one read chunk, ends with a word and then the first byte(s) of a
	// multi-byte sequence (a file read up to some byte count).
	TruncEnd int `json:"truncend,omitempty"`
	// Hyph: every Hyph-th word with at least 4 ASCII letters is broken over two lines with a hyphen (ASCII or one of
	// the typographic ones, in turn) and 0-8 blanks of indentation in front of the remainder (0 = off).
	Hyph int `json:"hyph,omitempty"`
	// CRLF: every line feed of the finished input is preceded by a carriage return.
	CRLF bool `json:"crlf,omitempty"`
	// TruncLen (with TruncEnd): multi-byte letters are put in front so that the input is exactly this many bytes
	// long (lengths around one read chunk: what lies one chunk before the cut-off tail is a continuation byte).
	TruncLen int `json:"trunclen,omitempty"`
}

var c08Splices = []string{"é", "日本語", "😀", "\xff", "\xf0\x9f", "\xc3", " naïve ", " 😀😀 ", "\xe2\x80", "·", "©", "   ", "\xf4\x90\x80\x80", "—"}

func (in c08Input) build(cl *Classifier) []byte {
	b := in.X.build(cl)
	if in.Typo {
		ls := splitLines(b)
		ls, _, _ = applyXforms(ls, []xform{{Kind: "dashes", Arg: 1, All: true}, {Kind: "quotes", Arg: 0, All: true}})
		b = joinLines(ls)
	}
	if in.Hyph > 0 {
		b = c08Hyphenate(b, in.Hyph)
	}
	if in.Every > 0 {
		var out bytes.Buffer
		for i := 0; i < len(b); i += in.Every {
			e := i + in.Every
			if e > len(b) {
				e = len(b)
			}
			out.Write(b[i:e])
			if e < len(b) && utf8.RuneStart(b[e]) {
				// alternately a 4-byte letter glued into the surrounding word (a decoding error there turns
				// an unknown word into a known one, which is observable) and a free-standing 4-byte symbol
				if (i/in.Every)%2 == 0 {
					out.WriteString("𝐀")
				} else {
					out.WriteString(" 😀 ")
				}
			}
		}
		b = out.Bytes()
	}
	for _, j := range in.Inject {
		if len(b) == 0 {
			b = []byte(c08Splices[((j.Kind%len(c08Splices))+len(c08Splices))%len(c08Splices)])
			continue
		}
		p := ((j.Pos % (len(b) + 1)) + len(b) + 1) % (len(b) + 1)
		s := c08Splices[((j.Kind%len(c08Splices))+len(c08Splices))%len(c08Splices)]
		b = append(b[:p:p], append([]byte(s), b[p:]...)...)
	}
	if in.TruncEnd > 0 {
		if len(b) > 900 {
			b = b[:900]
		}
		if k := bytes.LastIndexByte(b, ' '); k > 100 {
			b = b[:k]
		}
		b = bytes.TrimRight(b, " \t\r\n.,;:()\"'")
		b = append(b, [][]byte{{0xc3}, {0xe2, 0x80}, {0xf0, 0x9f}, {0xc5}}[in.TruncEnd%4]...)
		if need := in.TruncLen - len(b); need >= 3 && in.TruncLen <= 4096 {
			lead := []byte(strings.Repeat("\u00e9", (need-1)/2))
			if (need-1)%2 == 1 {
				lead = append(lead, 'a')
			}
			b = append(append(lead, '\n'), b...)
		}
		return b
	}
	if in.CRLF {
		b = bytes.Replace(bytes.Replace(b, []byte("\r\n"), []byte("\n"), -1), []byte("\n"), []byte("\r\n"), -1)
	}
	if in.LongRun > 0 {
		n := in.LongRun
		if n > 200000 {
			n = 200000
		}
		b = append([]byte(strings.Repeat("x", n)+"\n"), b...)
	}
	return b
}

var c08Hyphens = []string{"-", "\u2010", "-", "\u2013", "\u2014", "-", "\u2012"}

func c08Hyphenate(b []byte, every int) []byte {
	isL := func(c byte) bool { return (c >= 'a' && c <= 'z') || (c >= 'A' && c <= 'Z') }
	var out bytes.Buffer
	words, k := 0, 0
	for i := 0; i < len(b); {
		if !isL(b[i]) || (i > 0 && b[i-1] >= 0x80) {
			out.WriteByte(b[i])
			i++
			continue
		}
		j := i
		for j < len(b) && isL(b[j]) {
			j++
		}
		// a plain word: ASCII letters only, blank or line break on both sides
		plain := j-i >= 4 && (i == 0 || b[i-1] == ' ' || b[i-1] == '\n') && (j == len(b) || b[j] == ' ' || b[j] == '\n')
		if plain {
			words++
		}
		if plain && words%every == 0 {
			h := i + 2 + k%(j-i-3)
			out.Write(b[i:h])
			out.WriteString(c08Hyphens[k%len(c08Hyphens)])
			out.WriteByte('\n')
			out.WriteString(strings.Repeat(" ", (k*5)%9))
			out.Write(b[h:j])
			k++
		} else {
			out.Write(b[i:j])
		}
		i = j
	}
	return out.Bytes()
}

func genC08Input(t *rapid.T) c08Input {
	in := c08Input{X: genRecipe(t, 0.8), Typo: lib.Bool(t, "typo")}
	if lib.IntN(t, 0, 2, "every") == 0 {
		in.Every = lib.IntN(t, 61, 400, "everyN")
	}
	if lib.IntN(t, 0, 2, "hyph") == 0 {
		in.Hyph = lib.IntN(t, 3, 60, "hyphN")
	}
	in.CRLF = lib.IntN(t, 0, 3, "crlf") == 0
	n := lib.IntN(t, 0, 8, "ninject")
	for i := 0; i < n; i++ {
		in.Inject = append(in.Inject, c08Inj{Pos: lib.IntN(t, 0, 50000, "injPos"), Kind: lib.IntN(t, 0, len(c08Splices)-1, "injKind")})
	}
	if lib.IntN(t, 0, 5, "truncEnd") == 0 {
		in.TruncEnd = lib.IntN(t, 1, 8, "truncEndKind")
		in.Every, in.Inject = 0, nil
		if lib.Bool(t, "truncLen") {
			// a whole short document behind multi-byte letters, total length around one or two read chunks
			in.X = recipe{Segs: []seg{{Kind: "doc", Doc: lib.PickInt(t, c08ShortDocs(), "shortDoc")}}}
			in.Typo = false
			in.TruncLen = lib.PickInt(t, []int{1020, 2040}, "truncLenBase") + lib.IntN(t, -4, 8, "truncLenDelta")
		}
	}
	if lib.IntN(t, 0, 9, "longrun") == 0 {
		in.LongRun = lib.PickInt(t, []int{1019, 1020, 1023, 1024, 1025, 2047, 2048, 5000, 70000}, "longrunN")
	}
	return in
}

var c08Short []int

// c08ShortDocs: corpus documents of at most 850 bytes (they survive the TruncEnd cut whole).
func c08ShortDocs() []int {
	if c08Short == nil {
		for i, f := range assets() {
			if len(f.Content) <= 850 && len(f.Content) > 80 {
				c08Short = append(c08Short, i)
			}
		}
	}
	return c08Short
}

// schedReader delivers data according to a chunk-size schedule.
type schedReader struct {
	data        []byte
	sched       []int
	i           int
	eofWithData bool
	zeroReads   bool
}

func (r *schedReader) Read(p []byte) (int, error) {
	if len(r.data) == 0 {
		return 0, io.EOF
	}
	r.i++
	if r.zeroReads && r.i%3 == 0 {
		return 0, nil
	}
	n := 1
	if len(r.sched) > 0 {
		n = r.sched[r.i%len(r.sched)]
	}
	if n < 1 {
		n = 1
	}
	if n > len(p) {
		n = len(p)
	}
	if n > len(r.data) {
		n = len(r.data)
	}
	copy(p, r.data[:n])
	r.data = r.data[n:]
	if r.eofWithData && len(r.data) == 0 {
		return n, io.EOF
	}
	return n, nil
}

// ------------------------------------------------------------------ fragmentation and padding

type c08Frag struct {
	In          c08Input `json:"in"`
	Sched       []int    `json:"sched"`
	EOFWithData bool     `json:"eofWithData"`
	ZeroReads   bool     `json:"zeroReads"`
	Pad         int      `json:"pad"`
}

var c08Chunks = []int{1, 2, 3, 7, 64, 1019, 1020, 1021, 1022, 1023, 1024, 1025, 2048, 4096, 100000}

func c08FragGen(t *rapid.T) interface{} {
	c := &c08Frag{In: genC08Input(t), EOFWithData: lib.Bool(t, "eofWithData"), ZeroReads: lib.IntN(t, 0, 3, "zeroReads") == 0}
	n := lib.IntN(t, 1, 5, "nsched")
	for i := 0; i < n; i++ {
		c.Sched = append(c.Sched, lib.PickInt(t, c08Chunks, "chunk"))
	}
	if lib.Bool(t, "padNearBoundary") {
		c.Pad = lib.PickInt(t, []int{1016, 1017, 1018, 1019, 1020, 1021, 1022, 1023, 1024, 2040, 2041, 2042, 2043, 2044, 2045, 2046, 2047, 2048}, "pad") + lib.IntN(t, -3, 3, "padDelta")
	} else {
		c.Pad = lib.IntN(t, 0, 2*1024+8, "pad")
	}
	return c
}

func nearBoundaryMultibyte(b []byte) bool {
	for off := 1020; off < len(b)+4; off += 1020 {
		for d := -4; d <= 4; d++ {
			k := off + d
			if k >= 0 && k < len(b) && b[k] >= 0x80 {
				return true
			}
		}
	}
	return false
}

func c08FragCheck(ci interface{}) lib.Outcome {
	c := ci.(*c08Frag)
	if c.Pad < 0 || c.Pad > 1<<20 || len(c.Sched) > 64 {
		return lib.Outcome{Skip: "malformed"}
	}
	cl := classifierFor(0.8, corpusSel{Full: true})
	in := c.In.build(cl)
	want := cl.Match(in)
	ws := resultString(want)
	if c.In.TruncEnd > 0 {
		// other documents are classified in between; what they leave behind must not complete the cut-off sequence
		cl.Match([]byte(strings.Repeat("é", 700)))
		if g := cl.Match(in); resultString(g) != ws {
			return lib.Outcome{Violation: fmt.Sprintf("input ending in a cut-off multi-byte sequence (%d bytes): Match differs after another document was matched in between\n%s", len(in), diffResults(want, g))}
		}
		cl.Match([]byte("x" + strings.Repeat("é", 700)))
	}
	got, err := cl.MatchFrom(&schedReader{data: append([]byte{}, in...), sched: c.Sched, eofWithData: c.EOFWithData, zeroReads: c.ZeroReads})
	desc := fmt.Sprintf("input %s (typo=%v every=%d inject=%d longrun=%d truncend=%d trunclen=%d hyph=%d crlf=%v, %d bytes)", c.In.X.describe(), c.In.Typo, c.In.Every, len(c.In.Inject), c.In.LongRun, c.In.TruncEnd, c.In.TruncLen, c.In.Hyph, c.In.CRLF, len(in))
	if err != nil {
		return lib.Outcome{Violation: fmt.Sprintf("%s: MatchFrom(schedule %v, eofWithData=%v, zeroReads=%v) returned error %v", desc, c.Sched, c.EOFWithData, c.ZeroReads, err)}
	}
	if gs := resultString(got); gs != ws {
		return lib.Outcome{Violation: fmt.Sprintf("%s: MatchFrom(schedule %v, eofWithData=%v, zeroReads=%v) differs from Match\n%s", desc, c.Sched, c.EOFWithData, c.ZeroReads, diffResults(want, got))}
	}
	padded := append(bytes.Repeat([]byte{' '}, c.Pad), in...)
	gp := cl.Match(padded)
	if gs := resultString(gp); gs != ws {
		return lib.Outcome{Violation: fmt.Sprintf("%s: Match(%d spaces + input) differs from Match(input)\n%s", desc, c.Pad, diffResults(want, gp))}
	}
	multi := nearBoundaryMultibyte(padded) || nearBoundaryMultibyte(in)
	classes := []string{}
	if c.EOFWithData {
		classes = append(classes, "data-with-EOF")
	}
	if c.ZeroReads {
		classes = append(classes, "zero-length-reads")
	}
	if len(want.Matches) > 0 {
		classes = append(classes, "has-matches")
	}
	if multi {
		classes = append(classes, "multibyte-near-buffer-boundary")
	}
	if c.In.LongRun > 0 {
		classes = append(classes, "long-line")
	}
	if c.In.Hyph > 0 {
		classes = append(classes, "words-hyphenated-over-line-breaks")
	}
	if c.In.TruncEnd > 0 {
		classes = append(classes, "ends-in-cut-off-multibyte-sequence")
	}
	o := lib.Outcome{Classes: classes, Nontrivial: (len(in) > 1020 && multi) || c.In.TruncEnd > 0}
	if o.Nontrivial {
		o.FP = fmt.Sprintf("%s|%v|%d|%v|%v", desc, c.Sched, c.Pad, c.EOFWithData, c.ZeroReads)
		o.Sample = map[string]interface{}{"input": desc, "schedule": c.Sched, "pad": c.Pad, "eofWithData": c.EOFWithData, "zeroReads": c.ZeroReads, "matches": len(want.Matches)}
	}
	return o
}

// ------------------------------------------------------------------ reader faults

type c08Fault struct {
	In        c08Input `json:"in"`
	FailAfter int      `json:"failAfter"` // bytes delivered before the failure (modulo len+1)
	WithData  bool     `json:"withData"`  // the failing Read also returns bytes
	Chunk     int      `json:"chunk"`
	Kind      int      `json:"kind"` // which error value
}

var errInjected = errors.New("injected reader failure")

type faultReader struct {
	data     []byte
	left     int
	withData bool
	chunk    int
	err      error
	failed   bool
}

func (r *faultReader) Read(p []byte) (int, error) {
	if r.failed {
		return 0, r.err
	}
	if r.left == 0 {
		r.failed = true
		if r.withData && len(r.data) > 0 && len(p) > 0 {
			p[0] = r.data[0]
			r.data = r.data[1:]
			return 1, r.err
		}
		return 0, r.err
	}
	n := r.chunk
	if n < 1 {
		n = 1
	}
	if n > len(p) {
		n = len(p)
	}
	if n > r.left {
		n = r.left
	}
	if n > len(r.data) {
		n = len(r.data)
	}
	copy(p, r.data[:n])
	r.data = r.data[n:]
	r.left -= n
	return n, nil
}

func c08FaultGen(t *rapid.T) interface{} {
	return &c08Fault{In: genC08Input(t), FailAfter: lib.IntN(t, 0, 60000, "failAfter"), WithData: lib.Bool(t, "withData"),
		Chunk: lib.PickInt(t, c08Chunks, "chunk"), Kind: lib.IntN(t, 0, 5, "errKind")}
}

// errors that merely wrap or mention EOF are not io.EOF: the io.Reader contract has callers compare with ==
var (
	errWrapsEOF    = fmt.Errorf("connection reset by peer: %w", io.EOF)
	errWrapsUnexp  = fmt.Errorf("short body: %w", io.ErrUnexpectedEOF)
	errMentionsEOF = errors.New("EOF")
)

func c08Err(kind int) error {
	switch kind % 6 {
	case 0:
		return errInjected
	case 1:
		return io.ErrClosedPipe
	case 2:
		return io.ErrNoProgress
	case 3:
		return errWrapsEOF
	case 4:
		return errWrapsUnexp
	default:
		return errMentionsEOF
	}
}

func c08FaultCheck(ci interface{}) lib.Outcome {
	c := ci.(*c08Fault)
	cl := classifierFor(0.8, corpusSel{Full: true})
	in := c.In.build(cl)
	k := ((c.FailAfter % (len(in) + 1)) + len(in) + 1) % (len(in) + 1)
	want := c08Err(c.Kind)
	res, err := cl.MatchFrom(&faultReader{data: append([]byte{}, in...), left: k, withData: c.WithData, chunk: c.Chunk, err: want})
	desc := fmt.Sprintf("input %s (%d bytes), reader fails with %q after %d bytes (withData=%v, chunk %d)", c.In.X.describe(), len(in), want, k, c.WithData, c.Chunk)
	if err != want {
		return lib.Outcome{Violation: fmt.Sprintf("%s: MatchFrom returned error %v", desc, err)}
	}
	if res.Matches != nil || res.TotalInputLines != 0 {
		return lib.Outcome{Violation: fmt.Sprintf("%s: MatchFrom returned partial results (%d matches, TotalInputLines=%d)", desc, len(res.Matches), res.TotalInputLines)}
	}
	classes := []string{}
	if c.WithData {
		classes = append(classes, "error-with-data")
	}
	if k == len(in) {
		classes = append(classes, "fault-at-end")
	}
	if k%1020 < 4 || k%1024 < 4 {
		classes = append(classes, "fault-near-buffer-boundary")
	}
	return lib.Outcome{Classes: classes, Nontrivial: k > 0, FP: fmt.Sprintf("%s", desc),
		Sample: map[string]interface{}{"case": desc}}
}

// ------------------------------------------------------------------ exhaustive sweeps

type c08Sweep struct {
	Doc  int    `json:"doc"`  // index into the sweep inputs
	Kind string `json:"kind"` // pad | fault | chunk
	N    int    `json:"n"`
}

func c08SweepInput(cl *Classifier, k int) c08Input {
	a := assets()
	find := func(name, cat string) int {
		for i, f := range a {
			if f.Name == name && f.Cat == cat {
				return i
			}
		}
		return 0
	}
	if k >= 4 {
		// a whole short document that ends in a cut-off two-byte sequence, behind multi-byte letters; total length
		// 1021 / 1023 / 2041 bytes: the byte one read chunk before the end of the input is a continuation byte
		return c08Input{X: recipe{Segs: []seg{{Kind: "doc", Doc: find("ISC", "License")}}}, TruncEnd: 4, TruncLen: []int{1021, 1023, 2041}[(k-4)%3]}
	}
	switch k % 4 {
	case 0:
		return c08Input{X: recipe{Segs: []seg{{Kind: "doc", Doc: find("MIT", "License")}}}, Typo: true, Every: 67, Hyph: 9}
	case 1:
		return c08Input{X: recipe{Segs: []seg{{Kind: "doc", Doc: find("BSD-3-Clause", "License")}, {Kind: "doc", Doc: find("Apache-2.0", "Header")}}}, Typo: true, Every: 89, Hyph: 7, CRLF: true,
			Inject: []c08Inj{{Pos: 1019, Kind: 2}, {Pos: 2040, Kind: 1}, {Pos: 700, Kind: 3}}}
	case 2:
		return c08Input{X: recipe{Segs: []seg{{Kind: "oov", Words: 9, Lines: 2}, {Kind: "doc", Doc: find("ISC", "License")}}}, Every: 71, Inject: []c08Inj{{Pos: 300, Kind: 4}, {Pos: 1021, Kind: 12}}}
	default:
		return c08Input{X: recipe{Segs: []seg{{Kind: "doc", Doc: find("Zlib", "License")}}}, Typo: true, Every: 97, LongRun: 1021}
	}
}

func c08SweepEnum(yield func(interface{}) bool) {
	shard, nshards := lib.EnvInt("VERIF_SHARD", 0), lib.EnvInt("VERIF_NSHARDS", 1)
	ninputs := 2
	if lib.Tier() == "thorough" {
		ninputs = 4
	}
	cl := classifierFor(0.8, corpusSel{Full: true})
	idx := 0
	for d := 4; d < 7; d++ {
		for p := 0; p <= 2*1024+8; p++ {
			if p > 40 && p%8 != 0 && lib.Tier() != "thorough" {
				continue
			}
			idx++
			if idx%nshards == shard {
				if !yield(&c08Sweep{Doc: d, Kind: "pad", N: p}) {
					return
				}
			}
		}
	}
	for d := 0; d < ninputs; d++ {
		n := len(c08SweepInput(cl, d).build(cl))
		for p := 0; p <= 2*1024+8; p++ {
			idx++
			if idx%nshards == shard {
				if !yield(&c08Sweep{Doc: d, Kind: "pad", N: p}) {
					return
				}
			}
		}
		for k := 0; k <= n; k++ {
			idx++
			if idx%nshards == shard {
				if !yield(&c08Sweep{Doc: d, Kind: "fault", N: k}) {
					return
				}
			}
		}
		for ch := 1; ch <= 1030; ch += 1 {
			if ch > 40 && ch < 1010 && lib.Tier() != "thorough" {
				continue
			}
			idx++
			if idx%nshards == shard {
				if !yield(&c08Sweep{Doc: d, Kind: "chunk", N: ch}) {
					return
				}
			}
		}
	}
}

var c08SweepRef = map[int]Results{}

func c08SweepCheck(ci interface{}) lib.Outcome {
	c := ci.(*c08Sweep)
	cl := classifierFor(0.8, corpusSel{Full: true})
	inp := c08SweepInput(cl, c.Doc)
	in := inp.build(cl)
	want, ok := c08SweepRef[c.Doc]
	if !ok {
		want = cl.Match(in)
		c08SweepRef[c.Doc] = want
	}
	ws := resultString(want)
	switch c.Kind {
	case "pad":
		got := cl.Match(append(bytes.Repeat([]byte{' '}, c.N), in...))
		if resultString(got) != ws {
			return lib.Outcome{Violation: fmt.Sprintf("sweep input %d (%d bytes): Match(%d spaces + input) differs from Match(input)\n%s", c.Doc, len(in), c.N, diffResults(want, got))}
		}
		got2, err := cl.MatchFrom(&schedReader{data: append(bytes.Repeat([]byte{' '}, c.N), in...), sched: []int{1 + c.N%13, 1024}})
		if err != nil || resultString(got2) != ws {
			return lib.Outcome{Violation: fmt.Sprintf("sweep input %d (%d bytes): MatchFrom(%d spaces + input) differs from Match(input) (err=%v)\n%s", c.Doc, len(in), c.N, err, diffResults(want, got2))}
		}
	case "fault":
		for _, withData := range []bool{false, true} {
			res, err := cl.MatchFrom(&faultReader{data: append([]byte{}, in...), left: c.N, withData: withData, chunk: 1 + c.N%1500, err: errInjected})
			if err != errInjected || res.Matches != nil || res.TotalInputLines != 0 {
				return lib.Outcome{Violation: fmt.Sprintf("sweep input %d (%d bytes): reader failing after %d bytes (withData=%v): MatchFrom returned err=%v with %d matches, TotalInputLines=%d", c.Doc, len(in), c.N, withData, err, len(res.Matches), res.TotalInputLines)}
			}
		}
	case "chunk":
		got, err := cl.MatchFrom(&schedReader{data: append([]byte{}, in...), sched: []int{c.N}, eofWithData: c.N%2 == 0})
		if err != nil || resultString(got) != ws {
			return lib.Outcome{Violation: fmt.Sprintf("sweep input %d (%d bytes): MatchFrom with chunk size %d differs from Match (err=%v)\n%s", c.Doc, len(in), c.N, err, diffResults(want, got))}
		}
	default:
		return lib.Outcome{Skip: "malformed"}
	}
	return lib.Outcome{Nontrivial: true, Classes: []string{"sweep-" + c.Kind}}
}

func TestVerif_C08_Fragmentation(t *testing.T) {
	lib.Run(t, lib.Spec{ID: "C08", Part: "fragmentation",
		Rule: "inputs = generated license texts with typographic dashes/quotes everywhere, every N-th word broken over two lines with an ASCII or typographic hyphen and indentation, 4-byte runes every N bytes, spliced multi-byte / invalid UTF-8 fragments and lines of 1019..70000 bytes without blanks; reader schedules of 1-5 chunk sizes from {1,2,3,7,64,1019..1025,2048,4096,100000}, data-with-EOF, zero-length reads; pad widths 0..2056 (half of them near 1020/2044); oracle MatchFrom(reader) == Match(bytes) == Match(pad+bytes) bit-identically; non-trivial = input > 1020 bytes with a non-ASCII byte within 4 bytes of a buffer boundary; full corpus at 0.8",
		New:  func() interface{} { return &c08Frag{} }, Gen: c08FragGen, Check: c08FragCheck})
}

func TestVerif_C08_Faults(t *testing.T) {
	lib.Run(t, lib.Spec{ID: "C08", Part: "faults",
		Rule: "same inputs; the reader fails with one of six non-EOF errors (three of them wrap or mention EOF without being io.EOF) after a drawn number of bytes (optionally returning a byte together with the error, sticky afterwards); oracle: MatchFrom returns exactly that error and zero Results, no panic; non-trivial = failure after at least one byte",
		New:  func() interface{} { return &c08Fault{} }, Gen: c08FaultGen, Check: c08FaultCheck})
}

func TestVerif_C08_Sweeps(t *testing.T) {
	lib.Run(t, lib.Spec{ID: "C08", Part: "sweeps",
		Rule: "exhaustive over 2 (quick) / 4 (thorough) multi-byte-dense inputs: every pad width 0..2056 (Match and MatchFrom); 3 inputs that end in a cut-off multi-byte sequence exactly 1021 / 1023 / 2041 bytes after a run of two-byte letters: pad widths 0..40 and every 8th up to 2056 (all in thorough), every failure offset 0..len(input) with and without data, chunk sizes 1..40 and 1010..1030 (all 1..1030 in thorough)",
		New:  func() interface{} { return &c08Sweep{} }, Enum: c08SweepEnum, Check: c08SweepCheck, Exhaustive: true})
}
