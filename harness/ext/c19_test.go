package ext

// C19: the identify_license CLI reports what the library finds.
// Differential oracle: expected output computed in-process with assets.DefaultClassifier().Match.

import (
	"bytes"
	"encoding/json"
	"fmt"
	"os"
	"os/exec"
	"path/filepath"
	"sort"
	"strings"
	"sync"
	"testing"

	classifier "github.com/google/licenseclassifier/v2"
	embedded "github.com/google/licenseclassifier/v2/assets"
	"github.com/google/licenseclassifier/v2/tools/identify_license/backend"
	"pgregory.net/rapid"
	"verif/lib"
)

type c19File struct {
	Dir   int    `json:"dir"`  // index into the directory pool
	Name  string `json:"name"` // file name (no blanks)
	Kind  string `json:"kind"`
	Doc   int    `json:"doc"`
	Doc2  int    `json:"doc2"`
	Param int    `json:"param"`
}

type c19Case struct {
	Files       []c19File `json:"files"`
	ArgMode     int       `json:"argmode"` // 0 files, 1 root directory, 2 sub directories + loose files
	Headers     bool      `json:"headers"`
	Tasks       int       `json:"tasks"`
	JSON        bool      `json:"json"`
	IncludeText bool      `json:"include_text"`
}

var c19Dirs = []string{"", "src", "src/lib", "third_party/x/y", "docs", "a.b"}
var c19Kinds = []string{"licensed", "licensed", "header", "two-headers", "same-as-first", "same-as-first", "two-licenses", "prose", "empty", "crlf", "no-trailing-newline", "long-line-before", "long-line-inside", "binary", "notice-and-license", "edited", "symlink-licensed", "crcrlf"}
var c19Names = []string{"LICENSE", "COPYING.txt", "main.go", "x.c", "NOTICE", "file.rs", "README.md", "a", "b.txt", "zz.h", "lic.TXT", "m.py"}

func c19Gen(t *rapid.T) interface{} {
	c := &c19Case{ArgMode: lib.IntN(t, 0, 2, "argmode"), Headers: lib.Bool(t, "headers"), Tasks: lib.PickInt(t, []int{1, 2, 3, 8, 1000}, "tasks"),
		JSON: lib.IntN(t, 0, 2, "json") > 0, IncludeText: lib.Bool(t, "includeText")}
	n := lib.IntN(t, 1, 12, "nfiles")
	for i := 0; i < n; i++ {
		c.Files = append(c.Files, c19File{Dir: lib.IntN(t, 0, len(c19Dirs)-1, "dir"), Name: fmt.Sprintf("%d_%s", i, lib.PickStr(t, c19Names, "name")),
			Kind: lib.PickStr(t, c19Kinds, "kind"), Doc: lib.IntN(t, 0, 5000, "doc"), Doc2: lib.IntN(t, 0, 5000, "doc2"), Param: lib.IntN(t, 0, 1000, "param")})
	}
	return c
}

func c19Content(f c19File) []byte {
	a := assets()
	var lic, hdr []corpusFile
	for _, x := range a {
		if len(x.Content) > 40000 {
			continue
		}
		if x.Cat == "License" {
			lic = append(lic, x)
		}
		if x.Cat == "Header" {
			hdr = append(hdr, x)
		}
	}
	d1 := lic[f.Doc%len(lic)]
	d2 := lic[f.Doc2%len(lic)]
	h1 := hdr[f.Doc%len(hdr)]
	pre := oovWords(f.Param, 6, 4)
	post := oovWords(f.Param+50, 5, 0)
	switch f.Kind {
	case "licensed", "same-as-first", "symlink-licensed":
		return []byte(pre + string(d1.Content) + "\n" + post)
	case "header":
		return []byte("// " + strings.Replace(strings.TrimSpace(string(h1.Content)), "\n", "\n// ", -1) + "\n\npackage main\n\nfunc main() {}\n")
	case "two-headers": // e.g. a dual-licensed source file: two license headers, no full license text
		h2 := hdr[f.Doc2%len(hdr)]
		return []byte("/*\n" + strings.TrimSpace(string(h1.Content)) + "\n*/\n\n/*\n" + strings.TrimSpace(string(h2.Content)) + "\n*/\n\nint main() { return 0; }\n")
	case "two-licenses":
		return []byte(pre + string(d1.Content) + "\n" + oovWords(f.Param+20, 7, 3) + string(d2.Content) + "\n" + post)
	case "prose":
		return []byte(oovWords(f.Param, 120, 9))
	case "empty":
		return nil
	case "crlf":
		return []byte(strings.Replace(pre+string(d1.Content)+"\n"+post, "\n", "\r\n", -1))
	case "crcrlf": // a CR LF file converted a second time: every line ends in CR CR LF
		return []byte(strings.Replace(pre+string(d1.Content)+"\n"+post, "\n", "\r\r\n", -1))
	case "no-trailing-newline":
		return []byte(strings.TrimRight(pre+string(d1.Content), "\n \t\r"))
	case "long-line-before":
		return []byte(strings.Repeat("x", 65536+f.Param) + "\n" + pre + string(d1.Content) + "\n" + post)
	case "long-line-inside":
		s := string(d1.Content)
		k := len(s) / 2
		for k < len(s) && s[k] != '\n' {
			k++
		}
		return []byte(pre + s[:k] + "\n" + strings.Repeat("zq", 33000+f.Param) + "\n" + s[k:] + "\n" + post)
	case "binary":
		b := make([]byte, 3000)
		x := uint32(f.Param*2654435761 + 12345)
		for i := range b {
			x = x*1664525 + 1013904223
			b[i] = byte(x >> 24)
		}
		return b
	case "notice-and-license":
		return []byte("Copyright 2019 Example Corp\n\n" + string(d1.Content) + "\nCopyright (c) 2001 Somebody Else\n" + post)
	case "edited":
		w := strings.Fields(string(d1.Content))
		var kept []string
		for i, x := range w {
			if (i+1)%(11+f.Param%9) != 0 {
				kept = append(kept, x)
			}
			if (i+1)%10 == 0 {
				kept = append(kept, "\n")
			}
		}
		return []byte(pre + strings.Join(kept, " ") + "\n" + post)
	}
	return []byte("unknown kind\n")
}

var (
	c19Once sync.Once
	c19Cl   *classifier.Classifier
	c19Err  error
)

func c19Classifier() *classifier.Classifier {
	c19Once.Do(func() { c19Cl, c19Err = embedded.DefaultClassifier() })
	if c19Err != nil {
		panic(c19Err)
	}
	return c19Cl
}

type c19Expect struct {
	lines []string                       // expected stdout lines
	class map[string][]string            // per file: "Name|conf|start|end" entries
	text  map[string]map[string][]string // per file: entry -> acceptable Text values (one)
}

func c19ExpectedLine(path string, m *classifier.Match) string {
	name := m.Name
	if m.MatchType != "License" && m.MatchType != "Header" {
		name = fmt.Sprintf("%s:%s", m.MatchType, m.Name)
	}
	return fmt.Sprintf("%s %s (variant: %v, confidence: %v, start: %v, end: %v)", path, name, m.Variant, m.Confidence, m.StartLine, m.EndLine)
}

func c19Lines(content []byte, start, end int) string {
	ls := strings.Split(string(content), "\n")
	var sb strings.Builder
	for i := start; i <= end; i++ {
		if i-1 < len(ls) {
			sb.WriteString(strings.TrimSuffix(ls[i-1], "\r"))
		}
		sb.WriteString("\n")
	}
	return sb.String()
}

func normText(s string) string {
	return strings.Replace(s, "\r\n", "\n", -1)
}

// jsonImage is what a string looks like after a trip through JSON: bytes that are not valid UTF-8 cannot be carried
// by a JSON string and come back as U+FFFD. The Text of a classification is compared modulo this (a file in Latin-1,
// such as a license with a 0xA9 copyright sign, cannot be quoted byte for byte in JSON by any tool).
func jsonImage(s string) string {
	b, err := json.Marshal(s)
	if err != nil {
		return s
	}
	var out string
	if json.Unmarshal(b, &out) != nil {
		return s
	}
	return out
}

// materialise writes the files of a case under root and returns path -> content in a stable order.
func c19Materialise(c *c19Case, root string) ([]string, map[string][]byte, error) {
	contents := map[string][]byte{}
	var paths []string
	for _, f := range c.Files {
		if strings.ContainsAny(f.Name, " /\x00") || f.Name == "" {
			return nil, nil, fmt.Errorf("malformed")
		}
		dir := filepath.Join(root, c19Dirs[((f.Dir%len(c19Dirs))+len(c19Dirs))%len(c19Dirs)])
		if err := os.MkdirAll(dir, 0o755); err != nil {
			return nil, nil, err
		}
		p := filepath.Join(dir, f.Name)
		if _, dup := contents[p]; dup {
			continue
		}
		b := c19Content(f)
		if f.Kind == "same-as-first" && len(c.Files) > 0 {
			first := c.Files[0]
			if first.Kind == "same-as-first" {
				first.Kind = "licensed"
			}
			b = c19Content(first)
		}
		if f.Kind == "symlink-licensed" {
			// the file is a symbolic link to a regular file that lives outside the scanned tree
			tdir := root + "_targets"
			if err := os.MkdirAll(tdir, 0o755); err != nil {
				return nil, nil, err
			}
			target := filepath.Join(tdir, f.Name)
			if err := os.WriteFile(target, b, 0o644); err != nil {
				return nil, nil, err
			}
			if err := os.Symlink(target, p); err != nil {
				return nil, nil, err
			}
		} else if err := os.WriteFile(p, b, 0o644); err != nil {
			return nil, nil, err
		}
		contents[p] = b
		paths = append(paths, p)
	}
	return paths, contents, nil
}

func c19Args(c *c19Case, root string, paths []string) []string {
	switch c.ArgMode % 3 {
	case 1:
		return []string{root}
	case 2:
		seen := map[string]bool{}
		var args []string
		for _, p := range paths {
			d := filepath.Dir(p)
			if d == root {
				args = append(args, p)
			} else {
				top := filepath.Join(root, strings.Split(strings.TrimPrefix(d, root+string(os.PathSeparator)), string(os.PathSeparator))[0])
				if !seen[top] {
					seen[top] = true
					args = append(args, top)
				}
			}
		}
		return args
	}
	return append([]string{}, paths...)
}

var c19Counter int

func c19Root() string {
	base := os.Getenv("VERIF_SCRATCH")
	if base == "" {
		base = os.TempDir()
	}
	c19Counter++
	return filepath.Join(base, fmt.Sprintf("c19-%d-%d", os.Getpid(), c19Counter))
}

func sortedCopy(in []string) []string {
	out := append([]string{}, in...)
	sort.Strings(out)
	return out
}

func c19CLICheck(ci interface{}) lib.Outcome {
	c := ci.(*c19Case)
	cli := os.Getenv("VERIF_CLI")
	if cli == "" {
		return lib.Outcome{Skip: "no-cli-binary"}
	}
	if len(c.Files) == 0 || len(c.Files) > 40 || c.Tasks < 1 {
		return lib.Outcome{Skip: "malformed"}
	}
	root := c19Root()
	defer os.RemoveAll(root)
	defer os.RemoveAll(root + "_targets")
	os.MkdirAll(root, 0o755)
	tree := filepath.Join(root, "tree")
	paths, contents, err := c19Materialise(c, tree)
	if err != nil {
		return lib.Outcome{Skip: "malformed"}
	}
	cl := c19Classifier()
	var wantLines []string
	wantJSON := map[string][]string{}
	wantText := map[string]string{}
	kinds := map[string]bool{}
	for _, f := range c.Files {
		kinds[f.Kind] = true
	}
	for _, p := range paths {
		res := cl.Match(contents[p])
		for _, m := range res.Matches {
			if !c.Headers && m.MatchType == "Header" {
				continue
			}
			wantLines = append(wantLines, c19ExpectedLine(p, m))
			k := fmt.Sprintf("%s|%v|%d|%d", m.Name, m.Confidence, m.StartLine, m.EndLine)
			wantJSON[p] = append(wantJSON[p], k)
			wantText[p+"\x00"+k] = c19Lines(contents[p], m.StartLine, m.EndLine)
		}
	}
	args := []string{fmt.Sprintf("-tasks=%d", c.Tasks)}
	if c.Headers {
		args = append(args, "-headers")
	}
	jsonFile := filepath.Join(root, "out.json")
	if c.JSON {
		args = append(args, "-json", jsonFile)
		if c.IncludeText {
			args = append(args, "-include_text")
		}
	}
	args = append(args, c19Args(c, tree, paths)...)
	cmd := exec.Command(cli, args...)
	var stdout, stderr bytes.Buffer
	cmd.Stdout, cmd.Stderr = &stdout, &stderr
	runErr := cmd.Run()
	exit := 0
	if runErr != nil {
		if ee, ok := runErr.(*exec.ExitError); ok {
			exit = ee.ExitCode()
		} else {
			return lib.Outcome{Skip: "cannot-run-cli"}
		}
	}
	desc := fmt.Sprintf("identify_license %s (files: %s)", strings.Join(args[:len(args)-len(c19Args(c, tree, paths))], " "), c19Describe(c))
	var gotLines []string
	for _, l := range strings.Split(stdout.String(), "\n") {
		if l != "" {
			gotLines = append(gotLines, l)
		}
	}
	if a, b := sortedCopy(gotLines), sortedCopy(wantLines); strings.Join(a, "\n") != strings.Join(b, "\n") {
		return lib.Outcome{Violation: fmt.Sprintf("%s: stdout differs from what the library's Match returns\nexpected (%d lines):\n%s\ngot (%d lines):\n%s\nstderr tail: %s", desc, len(b), c19Clip(b), len(a), c19Clip(a), tail(stderr.String(), 300))}
	}
	if (exit == 0) != (len(gotLines) > 0) {
		return lib.Outcome{Violation: fmt.Sprintf("%s: exit status %d although %d matches were printed\nstderr tail: %s", desc, exit, len(gotLines), tail(stderr.String(), 400))}
	}
	if c.JSON && len(wantLines) > 0 {
		b, err := os.ReadFile(jsonFile)
		if err != nil {
			return lib.Outcome{Violation: fmt.Sprintf("%s: JSON output missing: %v", desc, err)}
		}
		var jr []struct {
			Filepath        string
			Classifications []struct {
				Name       string
				Confidence float64
				StartLine  int
				EndLine    int
				Text       string
			}
		}
		if err := json.Unmarshal(b, &jr); err != nil {
			return lib.Outcome{Violation: fmt.Sprintf("%s: JSON output unreadable: %v", desc, err)}
		}
		gotJSON := map[string][]string{}
		entries := map[string]int{}
		for _, fc := range jr {
			entries[fc.Filepath]++
			if entries[fc.Filepath] > 1 {
				// the output has one entry per file holding all its classifications; a file listed twice with a part of
				// its matches each is not "for each file exactly the matches Match returns"
				return lib.Outcome{Violation: fmt.Sprintf("%s: the JSON output lists %s in more than one entry", desc, fc.Filepath)}
			}
			for _, cc := range fc.Classifications {
				k := fmt.Sprintf("%s|%v|%d|%d", cc.Name, cc.Confidence, cc.StartLine, cc.EndLine)
				gotJSON[fc.Filepath] = append(gotJSON[fc.Filepath], k)
				if c.IncludeText {
					if want, ok := wantText[fc.Filepath+"\x00"+k]; ok && cc.Text != jsonImage(want) {
						if d := os.Getenv("VERIF_DEBUG"); d != "" {
							os.WriteFile(d+"/want.txt", []byte(want), 0o644)
							os.WriteFile(d+"/got.txt", []byte(cc.Text), 0o644)
							os.WriteFile(d+"/file.txt", contents[fc.Filepath], 0o644)
						}
						return lib.Outcome{Violation: fmt.Sprintf("%s: Text of %s in %s is not lines %d..%d of the file\nexpected %s\ngot      %s", desc, cc.Name, fc.Filepath, cc.StartLine, cc.EndLine, lib.Preview([]byte(want), 200), lib.Preview([]byte(cc.Text), 200))}
					}
				} else if cc.Text != "" {
					return lib.Outcome{Violation: fmt.Sprintf("%s: Text present without -include_text", desc)}
				}
			}
		}
		for _, p := range paths {
			if strings.Join(sortedCopy(gotJSON[p]), ";") != strings.Join(sortedCopy(wantJSON[p]), ";") {
				return lib.Outcome{Violation: fmt.Sprintf("%s: JSON classifications of %s differ\nexpected %v\ngot      %v", desc, p, sortedCopy(wantJSON[p]), sortedCopy(gotJSON[p]))}
			}
		}
		for p := range gotJSON {
			if _, ok := contents[p]; !ok {
				return lib.Outcome{Violation: fmt.Sprintf("%s: JSON mentions unknown file %s", desc, p)}
			}
		}
	}
	classes := []string{fmt.Sprintf("tasks-%d", c.Tasks), fmt.Sprintf("argmode-%d", c.ArgMode%3)}
	for k := range kinds {
		classes = append(classes, "file-"+k)
	}
	sort.Strings(classes)
	if c.JSON && c.IncludeText {
		classes = append(classes, "json-include-text")
	}
	if len(wantLines) == 0 {
		classes = append(classes, "nothing-reported(exit-1)")
	}
	return lib.Outcome{Classes: classes, Nontrivial: len(wantLines) > 0, FP: desc,
		Sample: map[string]interface{}{"command": desc, "printed_lines": len(gotLines), "exit": exit}}
}

func c19Describe(c *c19Case) string {
	var l []string
	for _, f := range c.Files {
		l = append(l, fmt.Sprintf("%s/%s=%s(%d)", c19Dirs[((f.Dir%len(c19Dirs))+len(c19Dirs))%len(c19Dirs)], f.Name, f.Kind, f.Doc))
	}
	return strings.Join(l, ", ")
}

func c19Clip(l []string) string {
	if len(l) > 12 {
		l = append(append([]string{}, l[:12]...), "...")
	}
	return strings.Join(l, "\n")
}

func tail(s string, n int) string {
	if len(s) > n {
		return s[len(s)-n:]
	}
	return s
}

// ---------------------------------------------------------------- in-process variant on the backend

var (
	c19BeOnce sync.Once
	c19Be     *backend.ClassifierBackend
	c19BeErr  error
)

func c19BackendCheck(ci interface{}) lib.Outcome {
	c := ci.(*c19Case)
	if len(c.Files) == 0 || len(c.Files) > 40 || c.Tasks < 1 {
		return lib.Outcome{Skip: "malformed"}
	}
	c19BeOnce.Do(func() { c19Be, c19BeErr = backend.New() })
	if c19BeErr != nil {
		return lib.Outcome{Violation: fmt.Sprintf("backend.New failed: %v", c19BeErr)}
	}
	root := c19Root()
	defer os.RemoveAll(root)
	defer os.RemoveAll(root + "_targets")
	paths, contents, err := c19Materialise(c, root)
	if err != nil {
		return lib.Outcome{Skip: "malformed"}
	}
	cl := c19Classifier()
	var want []string
	for _, p := range paths {
		for _, m := range cl.Match(contents[p]).Matches {
			if !c.Headers && m.MatchType == "Header" {
				continue
			}
			want = append(want, fmt.Sprintf("%s|%s|%s|%s|%v|%d|%d", p, m.MatchType, m.Name, m.Variant, m.Confidence, m.StartLine, m.EndLine))
		}
	}
	if os.Getenv("VERIF_MODE") == "replay" {
		// schedule-dependent failures (a panic on one of the backend's goroutines kills the process) need not show on
		// the first attempt: a replay repeats the call
		for k := 0; k < 40; k++ {
			c19Be.ClassifyLicenses(c.Tasks, paths, c.Headers)
		}
	}
	before := len(c19Be.GetResults())
	if errs := c19Be.ClassifyLicenses(c.Tasks, paths, c.Headers); len(errs) > 0 {
		return lib.Outcome{Violation: fmt.Sprintf("ClassifyLicenses(%d tasks) returned errors: %v", c.Tasks, errs)}
	}
	var got []string
	for _, r := range c19Be.GetResults()[before:] {
		got = append(got, fmt.Sprintf("%s|%s|%s|%s|%v|%d|%d", r.Filename, r.MatchType, r.Name, r.Variant, r.Confidence, r.StartLine, r.EndLine))
	}
	if a, b := sortedCopy(got), sortedCopy(want); strings.Join(a, "\n") != strings.Join(b, "\n") {
		return lib.Outcome{Violation: fmt.Sprintf("backend.ClassifyLicenses(tasks=%d, headers=%v) over %s: results differ from the library's Match per file\nexpected:\n%s\ngot:\n%s", c.Tasks, c.Headers, c19Describe(c), c19Clip(b), c19Clip(a))}
	}
	return lib.Outcome{Nontrivial: len(want) > 0 && len(paths) > 1, FP: fmt.Sprintf("%d|%v|%s", c.Tasks, c.Headers, c19Describe(c)), Classes: []string{fmt.Sprintf("tasks-%d", c.Tasks)},
		Sample: map[string]interface{}{"files": c19Describe(c), "tasks": c.Tasks, "headers": c.Headers, "results": len(want)}}
}

func TestVerif_C19_CLI(t *testing.T) {
	lib.Run(t, lib.Spec{ID: "C19", Part: "cli",
		Rule: "the identify_license binary (built from /repo's tree by the driver) is run over 1-12 generated files in nested directories (licensed, header-only, two licenses, edited, notice+license, prose, empty, CRLF, no trailing newline, >64 KiB line before / inside the license, binary junk), arguments as files / one directory / sub-directories + loose files, -headers on/off, -tasks in {1,2,3,8,1000}, -json with/without -include_text; expected output computed in-process with DefaultClassifier().Match per file: stdout lines (multiset), exit status 0 iff a line was printed, JSON classifications (multiset per file) and Text = lines StartLine..EndLine; non-trivial = at least one expected match line",
		New:  func() interface{} { return &c19Case{} }, Gen: c19Gen, Check: c19CLICheck})
}

func TestVerif_C19_Backend(t *testing.T) {
	lib.Run(t, lib.Spec{ID: "C19", Part: "backend",
		Rule: "same generated file sets through backend.ClassifyLicenses(tasks, files, headers) in process (one shared backend, results delta per call); multiset of results == library Match per file; built with -race in the thorough tier; non-trivial = more than one file and at least one expected result",
		New:  func() interface{} { return &c19Case{} }, Gen: c19Gen, Check: c19BackendCheck})
}
