package ext

// C12 (c): assets.DefaultClassifier() is equivalent to LoadLicenses on the assets directory.

import (
	"fmt"
	"strings"
	"sync"
	"testing"

	classifier "github.com/google/licenseclassifier/v2"
	embedded "github.com/google/licenseclassifier/v2/assets"
	"verif/lib"
)

type c12dCase struct {
	Kind string `json:"kind"` // doc | scen
	Idx  int    `json:"idx"`
	Edit int    `json:"edit"` // 0 = as is in context, n > 0 = every n-th word deleted
}

var (
	c12dOnce   sync.Once
	c12dDef    *classifier.Classifier
	c12dLoaded *classifier.Classifier
	c12dErr    error
)

func c12dSetup() {
	c12dOnce.Do(func() {
		c12dDef, c12dErr = embedded.DefaultClassifier()
		if c12dErr != nil {
			return
		}
		c12dLoaded = classifier.NewClassifier(0.8)
		c12dErr = c12dLoaded.LoadLicenses(assetsDir())
	})
}

func c12dEnum(yield func(interface{}) bool) {
	shard, nshards := lib.EnvInt("VERIF_SHARD", 0), lib.EnvInt("VERIF_NSHARDS", 1)
	idx := 0
	step := 1
	if lib.Tier() != "thorough" {
		step = 3
	}
	for i := range assets() {
		for _, e := range []int{0, 9} {
			idx++
			if idx%nshards != shard || (i+e)%step != 0 {
				continue
			}
			if !yield(&c12dCase{Kind: "doc", Idx: i, Edit: e}) {
				return
			}
		}
	}
	for i := range scenarios() {
		idx++
		if idx%nshards != shard {
			continue
		}
		if !yield(&c12dCase{Kind: "scen", Idx: i}) {
			return
		}
	}
}

func c12dCheck(ci interface{}) lib.Outcome {
	c := ci.(*c12dCase)
	c12dSetup()
	if c12dErr != nil {
		return lib.Outcome{Violation: fmt.Sprintf("DefaultClassifier / LoadLicenses(%s) failed: %v", assetsDir(), c12dErr)}
	}
	var in []byte
	desc := ""
	switch c.Kind {
	case "doc":
		f := assets()[c.Idx%len(assets())]
		text := string(f.Content)
		if c.Edit > 0 {
			w := strings.Fields(text)
			var kept []string
			for i, x := range w {
				if (i+1)%c.Edit != 0 {
					kept = append(kept, x)
				}
				if (i+1)%12 == 0 {
					kept = append(kept, "\n")
				}
			}
			text = strings.Join(kept, " ")
		}
		in = []byte(oovWords(10, 5, 3) + text + "\n" + oovWords(40, 4, 0))
		desc = fmt.Sprintf("%s/%s/%s (every %d-th word deleted)", f.Cat, f.Name, f.Variant, c.Edit)
	case "scen":
		in = scenarios()[c.Idx%len(scenarios())]
		desc = fmt.Sprintf("scenario %d", c.Idx)
	default:
		return lib.Outcome{Skip: "malformed"}
	}
	a, b := c12dDef.Match(in), c12dLoaded.Match(in)
	if resultString(a) != resultString(b) {
		return lib.Outcome{Violation: fmt.Sprintf("DefaultClassifier and LoadLicenses(assets) disagree on %s\nDefaultClassifier:\n%sLoadLicenses:\n%s", desc, fmtMatches(a), fmtMatches(b))}
	}
	return lib.Outcome{Nontrivial: len(a.Matches) > 0, Sample: map[string]interface{}{"input": desc, "matches": len(a.Matches)}}
}

func TestVerif_C12_Default(t *testing.T) {
	lib.Run(t, lib.Spec{ID: "C12", Part: "default-classifier",
		Rule: "assets.DefaultClassifier() vs NewClassifier(0.8).LoadLicenses(/repo/v2/assets): every embedded document in OOV context as is and with every 9th word deleted (a third of them in quick), every scenario file; identical Results; non-trivial = at least one match",
		New:  func() interface{} { return &c12dCase{} }, Enum: c12dEnum, Check: c12dCheck, Exhaustive: true})
}
