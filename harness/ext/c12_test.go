package ext

// C12 (c): assets.DefaultClassifier() is equivalent to LoadLicenses on the assets directory.

import (
	"fmt"
	"strings"
	"sync"
	"testing"

	classifier "github.com/google/licenseclassifier/v2"
	embedded "github.com/google/licenseclassifier/v2/assets"
	"verif/lib"
)

type c12dCase struct {
	Kind string `json:"kind"` // doc | scen
	Idx  int    `json:"idx"`
	Edit int    `json:"edit"` // 0 = as is in context, n > 0 = every n-th word deleted
}

var (
	c12dOnce   sync.Once
	c12dDef    *classifier.Classifier
	c12dLoaded *classifier.Classifier
	c12dErr    error
)

func c12dSetup() {
	c12dOnce.Do(func() {
		c12dDef, c12dErr = embedded.DefaultClassifier()
		if c12dErr != nil {
			return
		}
		c12dLoaded = classifier.NewClassifier(0.8)
		c12dErr = c12dLoaded.LoadLicenses(assetsDir())
	})
}

func c12dEnum(yield func(interface{}) bool) {
	shard, nshards := lib.EnvInt("VERIF_SHARD", 0), lib.EnvInt("VERIF_NSHARDS", 1)
	idx := 0
	step := 1
	if lib.Tier() != "thorough" {
		step = 3
	}
	for i := range assets() {
		for _, e := range []int{0, 9} {
			idx++
			if idx%nshards != shard || (i+e)%step != 0 {
				continue
			}
			if !yield(&c12dCase{Kind: "doc", Idx: i, Edit: e}) {
				return
			}
		}
	}
	for i := range scenarios() {
		idx++
		if idx%nshards != shard {
			continue
		}
		if !yield(&c12dCase{Kind: "scen", Idx: i}) {
			return
		}
	}
	// a caller that changed the classifier it got must not affect what DefaultClassifier returns afterwards
	for i := 0; i < 6; i++ {
		idx++
		if idx%nshards != shard {
			continue
		}
		if !yield(&c12dCase{Kind: "fresh-after-mutation", Idx: i * 67}) {
			return
		}
	}
}

func c12dCheck(ci interface{}) lib.Outcome {
	c := ci.(*c12dCase)
	c12dSetup()
	if c12dErr != nil {
		return lib.Outcome{Violation: fmt.Sprintf("DefaultClassifier / LoadLicenses(%s) failed: %v", assetsDir(), c12dErr)}
	}
	var in []byte
	desc := ""
	switch c.Kind {
	case "doc":
		f := assets()[c.Idx%len(assets())]
		text := string(f.Content)
		if c.Edit > 0 {
			w := strings.Fields(text)
			var kept []string
			for i, x := range w {
				if (i+1)%c.Edit != 0 {
					kept = append(kept, x)
				}
				if (i+1)%12 == 0 {
					kept = append(kept, "\n")
				}
			}
			text = strings.Join(kept, " ")
		}
		in = []byte(oovWords(10, 5, 3) + text + "\n" + oovWords(40, 4, 0))
		desc = fmt.Sprintf("%s/%s/%s (every %d-th word deleted)", f.Cat, f.Name, f.Variant, c.Edit)
	case "scen":
		in = scenarios()[c.Idx%len(scenarios())]
		desc = fmt.Sprintf("scenario %d", c.Idx)
	case "fresh-after-mutation":
		f := assets()[c.Idx%len(assets())]
		d1, err := embedded.DefaultClassifier()
		if err != nil {
			return lib.Outcome{Violation: fmt.Sprintf("DefaultClassifier failed: %v", err)}
		}
		// override this document in the instance we were given, and add another one
		d1.AddContent(f.Cat, f.Name, f.Variant, []byte("completely different words "+oovWords(c.Idx, 40, 8)))
		d1.AddContent("License", "Injected-By-Caller", "license.txt", f.Content)
		d2, err := embedded.DefaultClassifier()
		if err != nil {
			return lib.Outcome{Violation: fmt.Sprintf("DefaultClassifier failed: %v", err)}
		}
		in = []byte(oovWords(10, 5, 3) + string(f.Content) + "\n" + oovWords(40, 4, 0))
		a, b := d2.Match(in), c12dLoaded.Match(in)
		if resultString(a) != resultString(b) {
			return lib.Outcome{Violation: fmt.Sprintf("after another caller modified the classifier it had obtained from DefaultClassifier, a new DefaultClassifier() no longer equals LoadLicenses(assets) on %s/%s/%s\nDefaultClassifier:\n%sLoadLicenses:\n%s", f.Cat, f.Name, f.Variant, fmtMatches(a), fmtMatches(b))}
		}
		return lib.Outcome{Nontrivial: true, Classes: []string{"fresh-instance-after-mutation"}, Sample: map[string]interface{}{"input": "DefaultClassifier after mutation of an earlier instance: " + f.Name}}
	default:
		return lib.Outcome{Skip: "malformed"}
	}
	a, b := c12dDef.Match(in), c12dLoaded.Match(in)
	if resultString(a) != resultString(b) {
		return lib.Outcome{Violation: fmt.Sprintf("DefaultClassifier and LoadLicenses(assets) disagree on %s\nDefaultClassifier:\n%sLoadLicenses:\n%s", desc, fmtMatches(a), fmtMatches(b))}
	}
	return lib.Outcome{Nontrivial: len(a.Matches) > 0, Sample: map[string]interface{}{"input": desc, "matches": len(a.Matches)}}
}

func TestVerif_C12_Default(t *testing.T) {
	lib.Run(t, lib.Spec{ID: "C12", Part: "default-classifier",
		Rule: "assets.DefaultClassifier() vs NewClassifier(0.8).LoadLicenses(/repo/v2/assets): every embedded document in OOV context as is and with every 9th word deleted (a third of them in quick), every scenario file; identical Results; non-trivial = at least one match",
		New:  func() interface{} { return &c12dCase{} }, Enum: c12dEnum, Check: c12dCheck, Exhaustive: true})
}
