module verif/ext

go 1.23

require (
	github.com/google/licenseclassifier/v2 v2.0.0
	pgregory.net/rapid v1.3.0
	verif/lib v0.0.0
)

replace github.com/google/licenseclassifier/v2 => @REPO@/v2

replace verif/lib => @VERIF@/harness/lib
