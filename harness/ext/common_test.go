package ext

// External (public API only) harness: C10 totality, C12 DefaultClassifier part, C19 CLI.

import (
	"bytes"
	"fmt"
	"os"
	"path/filepath"
	"sort"
	"strings"
	"sync"

	classifier "github.com/google/licenseclassifier/v2"
	"verif/lib"
)

type corpusFile struct {
	Cat, Name, Variant string
	Content            []byte
}

var (
	assetsOnce sync.Once
	assetFiles []corpusFile
	scenOnce   sync.Once
	scenFiles  [][]byte
)

func assetsDir() string { return filepath.Join(lib.Repo(), "v2", "assets") }

func assets() []corpusFile {
	assetsOnce.Do(func() {
		root := assetsDir()
		var paths []string
		filepath.Walk(root, func(p string, info os.FileInfo, err error) error {
			if err == nil && !info.IsDir() && strings.HasSuffix(p, ".txt") {
				paths = append(paths, p)
			}
			return nil
		})
		sort.Strings(paths)
		for _, p := range paths {
			rel, _ := filepath.Rel(root, p)
			seg := strings.Split(rel, string(os.PathSeparator))
			if len(seg) != 3 {
				continue
			}
			b, err := os.ReadFile(p)
			if err != nil {
				panic(err)
			}
			assetFiles = append(assetFiles, corpusFile{seg[0], seg[1], seg[2], b})
		}
		if len(assetFiles) < 100 {
			panic(fmt.Sprintf("only %d corpus files under %s", len(assetFiles), root))
		}
	})
	return assetFiles
}

func scenarios() [][]byte {
	scenOnce.Do(func() {
		root := filepath.Join(lib.Repo(), "v2", "scenarios")
		var paths []string
		filepath.Walk(root, func(p string, info os.FileInfo, err error) error {
			if err == nil && !info.IsDir() && !strings.HasSuffix(p, "md") {
				paths = append(paths, p)
			}
			return nil
		})
		sort.Strings(paths)
		for _, p := range paths {
			b, err := os.ReadFile(p)
			if err != nil {
				panic(err)
			}
			i := bytes.Index(b, []byte("EXPECTED:"))
			if i < 0 {
				continue
			}
			j := bytes.IndexByte(b[i:], '\n')
			if j < 0 {
				continue
			}
			scenFiles = append(scenFiles, b[i+j+1:])
		}
	})
	return scenFiles
}

func findAsset(cat, name string) corpusFile {
	for _, f := range assets() {
		if f.Cat == cat && f.Name == name {
			return f
		}
	}
	panic("asset not found: " + cat + "/" + name)
}

func resultString(r classifier.Results) string {
	var sb strings.Builder
	fmt.Fprintf(&sb, "total=%d n=%d\n", r.TotalInputLines, len(r.Matches))
	for _, m := range r.Matches {
		fmt.Fprintf(&sb, "%s|%s|%s|%b|%d|%d|%d|%d\n", m.MatchType, m.Name, m.Variant, m.Confidence, m.StartLine, m.EndLine, m.StartTokenIndex, m.EndTokenIndex)
	}
	return sb.String()
}

func fmtMatches(r classifier.Results) string {
	var sb strings.Builder
	for _, m := range r.Matches {
		fmt.Fprintf(&sb, "  %s/%s/%s conf=%v lines=%d-%d tokens=%d-%d\n", m.MatchType, m.Name, m.Variant, m.Confidence, m.StartLine, m.EndLine, m.StartTokenIndex, m.EndTokenIndex)
	}
	if len(r.Matches) == 0 {
		sb.WriteString("  (none)\n")
	}
	return sb.String()
}

// oovWords builds n words that do not occur in the embedded corpus (consonant strings).
func oovWords(base, n, perLine int) string {
	const letters = "bcdfgjkvwxz"
	var sb strings.Builder
	for i := 0; i < n; i++ {
		k := base + i
		sb.WriteString("zq")
		for j := 0; j < 4 || k > 0; j++ {
			sb.WriteByte(letters[k%len(letters)])
			k /= len(letters)
		}
		if perLine > 0 && (i+1)%perLine == 0 {
			sb.WriteByte('\n')
		} else {
			sb.WriteByte(' ')
		}
	}
	sb.WriteByte('\n')
	return sb.String()
}
