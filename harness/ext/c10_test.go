package ext

// C10: the v2 API is total on arbitrary bytes: Match, MatchFrom, Normalize and AddContent never
// panic or hang for any byte sequence, any threshold in [0,1], empty corpora and empty documents.
// Oracle: no panic + the public part of the C03 well-formedness predicate.

import (
	"bytes"
	"crypto/sha256"
	"encoding/hex"
	"encoding/json"
	"fmt"
	"io"
	"math"
	"os"
	"path/filepath"
	"strings"
	"sync"
	"testing"
	"time"

	classifier "github.com/google/licenseclassifier/v2"
	"pgregory.net/rapid"
	"verif/lib"
)

type c10Doc struct {
	Cat     string `json:"cat"`
	Name    string `json:"name"`
	Variant string `json:"variant"`
	Text    []byte `json:"text"`
}

type c10Case struct {
	Thr     float64  `json:"thr"`
	Corpus  string   `json:"corpus"` // empty | docs | full | self (the input itself is added as a document)
	Docs    []c10Doc `json:"docs,omitempty"`
	Input   []byte   `json:"input"`
	Chunk   int      `json:"chunk"`
	AddLate bool     `json:"addLate"` // AddContent(input) after the first Match, then match again
}

var c10Thresholds = []float64{0, 1e-9, 0.01, 0.3, 0.5, 0.7, 0.8, 0.99, 0.999999, 1.0}

var c10Hostile = []string{"&#46; x\n&colon; y\n&rpar;\n&#41 z\nword-\n&#46; w\n", "&#46;", "\n&rpar; a", "&#0;", "&amp;amp;", "&", "(", "\x00", "\x80", "\xbf\xbf", "\xf4\x90\x80\x80", "-\n", "-\n-\n-\n-\n", "a-\n-\n-b", "\n\n\n\n", "   ", "\t", "\r\n",
	"&#x110000;", "&#xD800;", "&lt;&gt;", "((((", "&&&&", "copyright 2020\n", "Copyright (c) [yyyy]\n", "2020-01-01\n", "1. ", "a) ", "1.2.3. ", "·*·*", "©§¤", "‐–—",
	".,;:!?", "https", "httpshttps", "- - -", "x-\n", "x-\n   \n\n y", "9-\n", "9.\n", "version 2.0", "gnu lesser", "gnu library", "\xe2\x80", "\xc3", "😀", "𝐀",
	// first words of a line that look like list markers and contain letters whose byte length changes under case
	// mapping (Kelvin sign, dotted capital I, Angstrom and Ohm signs, capital sharp s, letters that grow), raw and as
	// HTML entities; letters whose code point ends in the byte of LF, CR, blank, '-', '.', ':' or ')'
	"\n\u212a. Scope\n", "\n&#8490;.\n", "\n&#8490;&#8490;) x\n", "\n&#304;&#304;: x\n", "\n\u0130\u0130) y\n", "\n\u2126\u212b. z\n", "\n\u1e9e\u1e9e:\n", "\n\u023a\u023e. a\n", "\n&#570;&#574;.\n",
	"\n\uff11. \n", "\u212a-\n\u212a", "\u010a\u4e0a\u010d\n", "\u0120\u012d\u012e\u013a\u0129 ", "\ufeff", "\u2028", "\u0085", "\u200b", "a\u0301\u030a"}

func genC10Input(t *rapid.T) []byte {
	var buf bytes.Buffer
	kind := lib.Weighted(t, []int{25, 25, 18, 10, 10, 10, 7}, "inputKind")
	switch kind {
	case 0: // license text mutated by byte flips / insertions / hostile splices
		a := assets()
		d := append([]byte{}, a[lib.IntN(t, 0, len(a)-1, "doc")].Content...)
		if len(d) > 6000 {
			s := lib.IntN(t, 0, len(d)-6000, "from")
			d = d[s : s+6000]
		}
		n := lib.IntN(t, 0, 12, "nmut")
		for i := 0; i < n && len(d) > 0; i++ {
			p := lib.IntN(t, 0, len(d)-1, "pos")
			switch lib.IntN(t, 0, 3, "mut") {
			case 0:
				d[p] = byte(lib.IntN(t, 0, 255, "byte"))
			case 1:
				s := lib.PickStr(t, c10Hostile, "splice")
				d = append(d[:p:p], append([]byte(s), d[p:]...)...)
			case 2:
				e := p + lib.IntN(t, 1, 200, "cut")
				if e > len(d) {
					e = len(d)
				}
				d = append(d[:p:p], d[e:]...)
			case 3:
				d = append(d[:p:p], append(lib.Bytes(t, 1, 8, "raw"), d[p:]...)...)
			}
		}
		buf.Write(d)
	case 1: // fragment soup
		n := lib.IntN(t, 0, 40, "nfrag")
		for i := 0; i < n; i++ {
			if lib.Bool(t, "hostile") {
				buf.WriteString(lib.PickStr(t, c10Hostile, "frag"))
			} else {
				buf.WriteString(lib.PickStr(t, []string{"the ", "software ", "license ", "is ", "provided ", "as ", "permission ", "granted ", "copy ", "of ", "gnu ", "version ", "2 ", "3.0 ", "apache ", "bsd ", "mit "}, "word"))
			}
		}
	case 2: // arbitrary bytes
		buf.Write(lib.Bytes(t, 0, 300, "bytes"))
	case 3: // no words at all
		n := lib.IntN(t, 0, 200, "n")
		buf.WriteString(strings.Repeat(lib.PickStr(t, []string{" ", "\n", "-", ".", "-\n", "\t", "*", "·", "\x00", "\xff", ")", "]"}, "filler"), n))
	case 4: // storms and very long lines
		switch lib.IntN(t, 0, 4, "storm") {
		case 0:
			buf.WriteString(strings.Repeat("-\n", lib.IntN(t, 1, 5000, "n")))
		case 1:
			buf.WriteString(strings.Repeat("x", lib.PickInt(t, []int{1019, 1020, 1024, 4096, 70000, 1 << 20}, "n")))
		case 2:
			buf.WriteString(strings.Repeat("\n", lib.PickInt(t, []int{1, 1024, 100000, 1 << 20}, "n")))
		case 3:
			buf.WriteString(strings.Repeat("word-\n", lib.IntN(t, 1, 3000, "n")))
		case 4:
			buf.WriteString(strings.Repeat("the software is provided as is ", lib.IntN(t, 1, 3000, "n")))
		}
	case 6: // no words, but lines the tokenizer treats as copyright notices / dates (they yield pseudo-matches, no tokens)
		n := lib.IntN(t, 1, 6, "nnotices")
		for i := 0; i < n; i++ {
			buf.WriteString(lib.PickStr(t, []string{"Copyright 2020 Google Inc.\n", "// Copyright (c) 2008 The Authors\n", "2020-01-15\n", "copyright 1999, 2000 x\n", "\n", "   \n", "# COPYRIGHT 2003.\n", "***\n", "(c) Copyright 2011 Y"}, "notice"))
		}
	case 5: // scenario file with a hostile tail
		sc := scenarios()
		buf.Write(sc[lib.IntN(t, 0, len(sc)-1, "scenario")])
		buf.WriteString(lib.PickStr(t, c10Hostile, "tail"))
	}
	return buf.Bytes()
}

func c10Gen(t *rapid.T) interface{} {
	c := &c10Case{Input: genC10Input(t), Chunk: lib.PickInt(t, []int{1, 3, 1019, 1024, 4096}, "chunk"), AddLate: lib.IntN(t, 0, 4, "addLate") == 0}
	if lib.IntN(t, 0, 3, "thrKind") == 0 {
		c.Thr = lib.Float(t, 0, 1, "thr")
	} else {
		c.Thr = lib.PickFloat(t, c10Thresholds, "thr")
	}
	switch lib.Weighted(t, []int{10, 45, 25, 20}, "corpus") {
	case 0:
		c.Corpus = "empty"
	case 1:
		c.Corpus = "docs"
		n := lib.IntN(t, 1, 5, "ndocs")
		for i := 0; i < n; i++ {
			d := c10Doc{Cat: lib.PickStr(t, []string{"License", "Header", "", "x y"}, "cat"), Name: fmt.Sprintf("D%d", i), Variant: lib.PickStr(t, []string{"license.txt", "", "v"}, "variant")}
			switch lib.IntN(t, 0, 6, "docKind") {
			case 5, 6: // a few words cut from the input itself: its last, first or some inner k words (k around the q-gram size)
				f := bytes.Fields(c.Input)
				if len(f) > 0 {
					k := lib.IntN(t, 1, 24, "cutWords")
					if k > len(f) {
						k = len(f)
					}
					from := len(f) - k
					switch lib.Weighted(t, []int{45, 25, 30}, "cutWhere") {
					case 1:
						from = 0
					case 2:
						from = lib.IntN(t, 0, len(f)-k, "cutFrom")
					}
					d.Text = bytes.Join(f[from:from+k], []byte(" "))
					if len(d.Text) > 20000 {
						d.Text = d.Text[:20000]
					}
				}
			case 0: // empty document
			case 1:
				d.Text = []byte(lib.PickStr(t, c10Hostile, "docText"))
			case 2:
				a := assets()
				d.Text = a[lib.IntN(t, 0, len(a)-1, "doc")].Content
				if len(d.Text) > 5000 {
					d.Text = d.Text[:5000]
				}
			case 3:
				d.Text = genC10Input(t)
				if len(d.Text) > 20000 {
					d.Text = d.Text[:20000]
				}
			case 4:
				d.Text = []byte("the software is provided as is without warranty of any kind")
			}
			c.Docs = append(c.Docs, d)
		}
	case 2:
		c.Corpus = "full"
		// the full corpus is only combined with thresholds >= 0.5: below that every one of the 431 documents is scored
		// against every input, which is a cost, not a totality, question (small corpora cover thresholds down to 0)
		if c.Thr < 0.5 {
			c.Thr = lib.PickFloat(t, []float64{0.5, 0.7, 0.8, 0.99, 1.0}, "fullThr")
		}
	case 3:
		c.Corpus = "self"
	}
	return c
}

var (
	c10FullMu    sync.Mutex
	c10FullCache = map[float64]*classifier.Classifier{}
	c10FullOrder []float64
)

func c10Full(thr float64) *classifier.Classifier {
	c10FullMu.Lock()
	defer c10FullMu.Unlock()
	if c, ok := c10FullCache[thr]; ok {
		return c
	}
	c := classifier.NewClassifier(thr)
	for _, f := range assets() {
		c.AddContent(f.Cat, f.Name, f.Variant, f.Content)
	}
	c10FullCache[thr] = c
	c10FullOrder = append(c10FullOrder, thr)
	if len(c10FullOrder) > 3 {
		delete(c10FullCache, c10FullOrder[0])
		c10FullOrder = c10FullOrder[1:]
	}
	return c
}

// wellFormedPublic is the part of the C03 predicate that needs no white-box access.
func wellFormedPublic(thr float64, triples map[string]bool, input []byte, res classifier.Results) string {
	maxLines := 1 + bytes.Count(input, []byte("\n"))
	for i, m := range res.Matches {
		desc := fmt.Sprintf("match %d: %s/%s/%s conf=%v lines=%d-%d tokens=%d-%d (TotalInputLines=%d, input has %d lines, threshold %v)", i, m.MatchType, m.Name, m.Variant, m.Confidence, m.StartLine, m.EndLine, m.StartTokenIndex, m.EndTokenIndex, res.TotalInputLines, maxLines, thr)
		if math.IsNaN(m.Confidence) {
			return "NaN confidence: " + desc
		}
		if i > 0 && res.Matches[i-1].Confidence < m.Confidence {
			return "matches not ordered by non-increasing confidence at " + desc
		}
		if m.MatchType == "Copyright" && m.Name == "Copyright" && !triples["Copyright\x00Copyright\x00"+m.Variant] {
			if m.Confidence != 1.0 || m.StartLine != m.EndLine || m.StartLine < 1 || m.StartLine > maxLines {
				return "malformed Copyright pseudo-match: " + desc
			}
			continue
		}
		if !(m.Confidence >= thr && m.Confidence <= 1.0) {
			return "confidence outside [threshold, 1]: " + desc
		}
		if triples != nil && !triples[m.MatchType+"\x00"+m.Name+"\x00"+m.Variant] {
			return "(MatchType, Name, Variant) was never added: " + desc
		}
		if !(1 <= m.StartLine && m.StartLine <= m.EndLine && m.EndLine <= res.TotalInputLines && res.TotalInputLines <= maxLines) {
			return "line numbers malformed: " + desc
		}
		if !(0 <= m.StartTokenIndex && m.StartTokenIndex <= m.EndTokenIndex && m.EndTokenIndex < len(input)) {
			return "token indices malformed: " + desc
		}
	}
	return ""
}

var errEOF = io.EOF

func c10Check(ci interface{}) lib.Outcome {
	c := ci.(*c10Case)
	if !(c.Thr >= 0 && c.Thr <= 1) || len(c.Docs) > 16 || len(c.Input) > 4<<20 {
		return lib.Outcome{Skip: "malformed"}
	}
	for _, d := range c.Docs {
		if strings.ContainsRune(d.Cat+d.Name+d.Variant, os.PathSeparator) || len(d.Text) > 1<<20 {
			return lib.Outcome{Skip: "malformed"}
		}
	}
	start := time.Now()
	var cl *classifier.Classifier
	var triples map[string]bool
	switch c.Corpus {
	case "full":
		cl = c10Full(c.Thr)
		triples = nil // names not checked against the 431 files here (C03 does)
	case "empty", "docs", "self":
		cl = classifier.NewClassifier(c.Thr)
		triples = map[string]bool{}
		for _, d := range c.Docs {
			cl.AddContent(d.Cat, d.Name, d.Variant, d.Text)
			triples[d.Cat+"\x00"+d.Name+"\x00"+d.Variant] = true
		}
		if c.Corpus == "self" {
			cl.AddContent("License", "Self", "self.txt", c.Input)
			triples["License\x00Self\x00self.txt"] = true
		}
	default:
		return lib.Outcome{Skip: "malformed"}
	}
	in := c.Input
	r1 := cl.Match(in)
	if msg := wellFormedPublic(c.Thr, triples, in, r1); msg != "" {
		return lib.Outcome{Violation: "Match: " + msg}
	}
	ch := c.Chunk
	if ch < 1 {
		ch = 1
	}
	r2, err := cl.MatchFrom(&stepReader{data: in, chunk: ch})
	if err != nil {
		return lib.Outcome{Violation: fmt.Sprintf("MatchFrom returned an error for a healthy reader: %v", err)}
	}
	if msg := wellFormedPublic(c.Thr, triples, in, r2); msg != "" {
		return lib.Outcome{Violation: "MatchFrom: " + msg}
	}
	var n []byte
	if c.Corpus != "full" { // Normalize adds words to the dictionary: never on the shared full-corpus classifier
		n = cl.Normalize(in)
		r3 := cl.Match(n)
		if msg := wellFormedPublic(c.Thr, triples, n, r3); msg != "" {
			return lib.Outcome{Violation: "Match(Normalize(input)): " + msg}
		}
		if c.AddLate {
			cl.AddContent("License", "Late", "late.txt", in)
			triples["License\x00Late\x00late.txt"] = true
			r4 := cl.Match(in)
			if msg := wellFormedPublic(c.Thr, triples, in, r4); msg != "" {
				return lib.Outcome{Violation: "Match after a late AddContent: " + msg}
			}
			cl.Normalize(n)
		}
	} else {
		classifier.NewClassifier(c.Thr).Normalize(in)
	}
	el := time.Since(start)
	classes := []string{"corpus-" + c.Corpus}
	if c.Thr == 0 {
		classes = append(classes, "threshold-0")
	} else if c.Thr < 0.5 {
		classes = append(classes, "threshold-below-0.5")
	}
	if len(r1.Matches) > 0 {
		classes = append(classes, "has-matches")
	}
	invalid := !isValidUTF8(in)
	if invalid {
		classes = append(classes, "invalid-utf8")
	}
	if bytes.Contains(in, []byte("&")) {
		classes = append(classes, "html-entity-or-ampersand")
	}
	if len(in) >= 1<<16 {
		classes = append(classes, "input>=64KiB")
	}
	extra := map[string]int{}
	if el > 10*time.Second {
		extra["cases_slower_than_10s"] = 1
	}
	h := sha256.Sum256(in)
	return lib.Outcome{Classes: classes, Extra: extra, Nontrivial: len(r1.Matches) > 0 || invalid || bytes.Contains(in, []byte("&")),
		FP:     fmt.Sprintf("%v|%s|%d|%s", c.Thr, c.Corpus, len(c.Docs), hex.EncodeToString(h[:8])),
		Sample: map[string]interface{}{"threshold": c.Thr, "corpus": c.Corpus, "docs": len(c.Docs), "input_len": len(in), "input_head": lib.Preview(in, 60), "matches": len(r1.Matches)}}
}

type stepReader struct {
	data  []byte
	chunk int
}

func (r *stepReader) Read(p []byte) (int, error) {
	if len(r.data) == 0 {
		return 0, errEOF
	}
	n := r.chunk
	if n > len(p) {
		n = len(p)
	}
	if n > len(r.data) {
		n = len(r.data)
	}
	copy(p, r.data[:n])
	r.data = r.data[n:]
	return n, nil
}

func isValidUTF8(b []byte) bool {
	for _, r := range string(b) {
		if r == 0xFFFD {
			return false
		}
	}
	return true
}

func TestVerif_C10_Rapid(t *testing.T) {
	lib.Run(t, lib.Spec{ID: "C10", Part: "structured",
		Rule: "structure-aware generation: license texts mutated by byte flips, cuts, raw-byte and hostile-fragment splices (entities, NUL, lone continuation bytes, out-of-range sequences, hyphen/newline storms), fragment soups, arbitrary bytes, inputs without any word, inputs consisting only of copyright-notice / date lines, 1 MiB lines / newline runs, scenario files with hostile tails; thresholds {0,1e-9,0.01,0.3,0.5,0.7,0.8,0.99,0.999999,1} or drawn in [0,1]; corpora: empty, 1-5 documents (empty, hostile, license, generated), the input itself as a document, full (thresholds >= 0.5); sequence AddContent* -> Match -> MatchFrom -> Normalize -> Match(Normalize) -> late AddContent -> Match; oracle: no panic + public well-formedness predicate; non-trivial = has matches or invalid UTF-8 or '&'; distinct = distinct (threshold, corpus, input hash)",
		New:  func() interface{} { return &c10Case{} }, Gen: c10Gen, Check: c10Check})
}

// ------------------------------------------------------------------ native fuzz targets (thorough tier)

func fuzzSeeds(f *testing.F, add func(data []byte)) {
	a := assets()
	for i := 0; i < len(a); i += 23 {
		d := a[i].Content
		if len(d) > 3000 {
			d = d[:3000]
		}
		add(d)
	}
	for i, s := range scenarios() {
		if i%6 == 0 && len(s) < 6000 {
			add(s)
		}
	}
	for _, h := range c10Hostile {
		add([]byte(h))
		add([]byte("the software " + h + " is provided " + h))
	}
	add(nil)
	add([]byte("   "))
}

// reportFuzz runs the shared oracle and, on a violation, writes the case as a replay envelope for the driver.
func reportFuzz(t *testing.T, c *c10Case) {
	// With a threshold near 0 every word is a q-gram and candidate search is quadratic in the text sizes: tens of
	// seconds for a few kilobytes, which the fuzzing coordinator takes for a hung worker. Low thresholds are therefore
	// fuzzed with short texts only (a cost limit, stated in DESIGN.md; the rapid part does the same).
	if c.Thr < 0.3 {
		if len(c.Input) > 600 {
			c.Input = c.Input[:600]
		}
		for i := range c.Docs {
			if len(c.Docs[i].Text) > 600 {
				c.Docs[i].Text = c.Docs[i].Text[:600]
			}
		}
	}
	if os.Getenv("VERIF_SELFTEST_WORKER_DIES") != "" && len(c.Input)%97 == 13 {
		// self-test of the driver only: a fuzz worker process that dies although the input is harmless
		for _, a := range os.Args {
			if strings.HasPrefix(a, "-test.fuzzworker") {
				os.Exit(3)
			}
		}
	}
	if p := os.Getenv("VERIF_FUZZ_PREWRITE"); p != "" {
		// the driver re-executes an input the engine saved without a verdict of the oracle: leave the case behind
		// first, in case this execution crashes hard or does not finish
		b, _ := json.Marshal(c)
		eb, _ := json.Marshal(lib.Envelope{Property: "C10", Part: "structured", Message: "case in flight", Case: b})
		os.WriteFile(p, eb, 0o644)
	}
	o := lib.SafeCheck(c10Check, c)
	if o.Violation == "" {
		return
	}
	if dir := os.Getenv("VERIF_FUZZ_OUT"); dir != "" {
		b, _ := json.Marshal(c)
		e := lib.Envelope{Property: "C10", Part: "structured", Message: o.Violation, Case: b}
		eb, _ := json.Marshal(e)
		h := sha256.Sum256(eb)
		os.MkdirAll(dir, 0o755)
		os.WriteFile(filepath.Join(dir, fmt.Sprintf("%08d-%s.json", len(eb), hex.EncodeToString(h[:6]))), eb, 0o644)
	}
	t.Fatalf("violation: %s", o.Violation)
}

func thrFromByte(b uint8) float64 {
	if int(b) < len(c10Thresholds) {
		return c10Thresholds[b]
	}
	return float64(b) / 255
}

func FuzzMatch(f *testing.F) {
	fuzzSeeds(f, func(d []byte) { f.Add(d, uint8(0), uint8(1)); f.Add(d, uint8(6), uint8(2)) })
	lic := findAsset("License", "MIT").Content
	f.Fuzz(func(t *testing.T, data []byte, thr uint8, sel uint8) {
		c := &c10Case{Thr: thrFromByte(thr), Input: data, Chunk: 1024}
		switch sel % 4 {
		case 0:
			c.Corpus = "empty"
		case 1:
			c.Corpus = "docs"
			c.Docs = []c10Doc{{Cat: "License", Name: "MIT", Variant: "a.txt", Text: lic}, {Cat: "License", Name: "Empty", Variant: "e.txt"}}
		case 2:
			c.Corpus = "self"
		case 3:
			c.Corpus = "full"
			if c.Thr < 0.5 {
				c.Thr = 0.8
			}
		}
		reportFuzz(t, c)
	})
}

func FuzzMatchFrom(f *testing.F) {
	fuzzSeeds(f, func(d []byte) { f.Add(d, uint16(1)); f.Add(d, uint16(1021)) })
	lic := findAsset("License", "BSD-3-Clause").Content
	f.Fuzz(func(t *testing.T, data []byte, chunk uint16) {
		reportFuzz(t, &c10Case{Thr: 0.8, Corpus: "docs", Docs: []c10Doc{{Cat: "License", Name: "BSD-3-Clause", Variant: "a.txt", Text: lic}}, Input: data, Chunk: 1 + int(chunk)%5000})
	})
}

func FuzzNormalize(f *testing.F) {
	fuzzSeeds(f, func(d []byte) { f.Add(d) })
	f.Fuzz(func(t *testing.T, data []byte) {
		reportFuzz(t, &c10Case{Thr: 0.8, Corpus: "empty", Input: data, Chunk: 7, AddLate: true})
	})
}

func FuzzAddThenMatch(f *testing.F) {
	fuzzSeeds(f, func(d []byte) { f.Add(d, d, uint8(0)); f.Add([]byte("the software is provided as is"), d, uint8(4)) })
	f.Fuzz(func(t *testing.T, doc []byte, data []byte, thr uint8) {
		reportFuzz(t, &c10Case{Thr: thrFromByte(thr), Corpus: "docs", Docs: []c10Doc{{Cat: "License", Name: "Fuzzed", Variant: "f.txt", Text: doc}, {Cat: "Header", Name: "Fuzzed", Variant: "", Text: data}}, Input: data, Chunk: 3})
	})
}
