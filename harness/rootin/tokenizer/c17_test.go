//go:build verif

package tokenizer

// C17 (tokenizer part): token offsets reproduce each token's text from the original string, in
// increasing non-overlapping order, covering every non-space character.

import (
	"fmt"
	"strings"
	"testing"
	"unicode"
	"unicode/utf8"

	"pgregory.net/rapid"
	"verif/lib"
)

type c17TokCase struct {
	S []byte `json:"s"`
}

var c17Atoms = []string{"a", "b", "word", "License", "1", "42", " ", "  ", "\t", "\n", "\r\n", " ", " ", "　", ".", ",", "(", ")", "-", "—", "«", "»", "“", "”", "…", "'", "é", "ß", "日本", "語", "😀", "𝐀",
	"\uFFFD", "na\uFFFDve", "\xff", "\xfe\xff", "\xc3", "\xe2\x80", "\xf0\x9f", "\xf4\x90\x80\x80", "\x00", "\x80", "+", "$", "^", "`", "~", "|", "=", "<", ">"}

func c17TokGen(t *rapid.T) interface{} {
	var sb strings.Builder
	n := lib.IntN(t, 0, 40, "natoms")
	for i := 0; i < n; i++ {
		if lib.IntN(t, 0, 9, "rawBytes") == 0 {
			sb.Write(lib.Bytes(t, 1, 4, "raw"))
		} else {
			sb.WriteString(lib.PickStr(t, c17Atoms, "atom"))
		}
	}
	return &c17TokCase{S: []byte(sb.String())}
}

func c17TokCheck(ci interface{}) lib.Outcome {
	c := ci.(*c17TokCase)
	s := string(c.S)
	toks := Tokenize(s)
	prevEnd := 0
	var got strings.Builder
	for i, tk := range toks {
		if tk == nil {
			return lib.Outcome{Violation: fmt.Sprintf("Tokenize(%q): token %d is nil", s, i)}
		}
		if tk.Offset < prevEnd {
			return lib.Outcome{Violation: fmt.Sprintf("Tokenize(%q): token %d (%q at %d) starts before the end (%d) of the previous token", s, i, tk.Text, tk.Offset, prevEnd)}
		}
		if len(tk.Text) == 0 {
			return lib.Outcome{Violation: fmt.Sprintf("Tokenize(%q): token %d is empty", s, i)}
		}
		if tk.Offset+len(tk.Text) > len(s) || s[tk.Offset:tk.Offset+len(tk.Text)] != tk.Text {
			return lib.Outcome{Violation: fmt.Sprintf("Tokenize(%q): token %d has text %q (%d bytes) but the string at its offset %d reads %q", s, i, tk.Text, len(tk.Text), tk.Offset, clip(s, tk.Offset, len(tk.Text)))}
		}
		prevEnd = tk.Offset + len(tk.Text)
		got.WriteString(tk.Text)
	}
	var want strings.Builder
	nonASCII, invalid := false, false
	for i := 0; i < len(s); {
		r, size := utf8.DecodeRuneInString(s[i:])
		if !unicode.IsSpace(r) {
			want.WriteString(s[i : i+size])
		}
		if r >= 128 {
			nonASCII = true
		}
		if r == utf8.RuneError && size == 1 {
			invalid = true
		}
		i += size
	}
	if got.String() != want.String() {
		return lib.Outcome{Violation: fmt.Sprintf("Tokenize(%q): tokens concatenate to %q but the non-space characters are %q", s, got.String(), want.String())}
	}
	var classes []string
	if invalid {
		classes = append(classes, "invalid-utf8")
	}
	if nonASCII {
		classes = append(classes, "non-ascii")
	}
	return lib.Outcome{Nontrivial: len(toks) > 1, FP: s, Classes: classes, Sample: map[string]interface{}{"s": fmt.Sprintf("%q", s), "tokens": len(toks)}}
}

func clip(s string, off, n int) string {
	if off > len(s) {
		return "(beyond the end)"
	}
	e := off + n
	if e > len(s) {
		e = len(s)
	}
	return s[off:e]
}

func TestVerif_C17_Tokenize(t *testing.T) {
	lib.Run(t, lib.Spec{ID: "C17", Part: "tokenize",
		Rule: "strings of 0-40 atoms: ASCII / Unicode letters, digits, every kind of Unicode space, ASCII and Unicode punctuation, symbols, 4-byte runes, invalid UTF-8 fragments and raw bytes; oracle: offsets increasing and non-overlapping, s[Offset:Offset+len(Text)] == Text, concatenated texts == s without IsSpace runes; non-trivial = more than one token; distinct = distinct string",
		New:  func() interface{} { return &c17TokCase{} }, Gen: c17TokGen, Check: c17TokCheck})
}
