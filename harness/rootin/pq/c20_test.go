//go:build verif

package pq

// C20 (priority queue): always pops a minimal element under its comparator,
// keeps the indices it reports through setIndex accurate across Push, Pop, Fix
// and Remove, and conserves the multiset of elements.
// Oracle: reference model = list of queued items; white-box read of heap.a.

import (
	"encoding/json"
	"fmt"
	"sort"
	"testing"

	"pgregory.net/rapid"
	"verif/lib"
)

type pqOp struct {
	Kind string `json:"k"` // push pop min fix remove | pushmany (100 + 40*Pick items) popmany (40*Pick items, each checked)
	Prio int    `json:"p"`
	Pick int    `json:"i"`
}

type pqCase struct {
	Desc     bool   `json:"desc"`     // comparator direction
	SetIndex bool   `json:"setIndex"` // queue informs items of their position
	Ops      []pqOp `json:"ops"`
}

type pqItem struct {
	id, prio, idx int
}

var pqKinds = []string{"push", "push", "push", "pop", "min", "fix", "remove"}

func pqGen(t *rapid.T) interface{} {
	c := &pqCase{Desc: lib.Bool(t, "desc"), SetIndex: lib.IntN(t, 0, 3, "setIndex") > 0}
	n := lib.IntN(t, 1, 60, "nops")
	bulk := lib.IntN(t, 0, 7, "bulk") == 0 // a queue that grows to hundreds or thousands of items and is drained again
	for i := 0; i < n; i++ {
		if bulk && lib.IntN(t, 0, 5, "bulkOp") == 0 {
			c.Ops = append(c.Ops, pqOp{Kind: lib.PickStr(t, []string{"pushmany", "popmany", "popmany"}, "bulkKind"), Prio: lib.IntN(t, 0, 6, "prio"), Pick: lib.IntN(t, 0, 63, "pick")})
			continue
		}
		c.Ops = append(c.Ops, pqOp{Kind: lib.PickStr(t, pqKinds, "kind"), Prio: lib.IntN(t, 0, 6, "prio"), Pick: lib.IntN(t, 0, 63, "pick")})
	}
	if bulk {
		c.Ops = append([]pqOp{{Kind: "pushmany", Prio: 3, Pick: lib.IntN(t, 0, 63, "firstBulk")}}, c.Ops...)
	}
	return c
}

func pqCheck(ci interface{}) lib.Outcome {
	c := ci.(*pqCase)
	less := func(x, y interface{}) bool {
		if c.Desc {
			return x.(*pqItem).prio > y.(*pqItem).prio
		}
		return x.(*pqItem).prio < y.(*pqItem).prio
	}
	var setIndex func(x interface{}, idx int)
	if c.SetIndex {
		setIndex = func(x interface{}, idx int) { x.(*pqItem).idx = idx }
	}
	q := NewQueue(less, setIndex)
	var model []*pqItem
	nextID := 0
	fixes, removes, pops, maxLen := 0, 0, 0, 0
	isMinimal := func(x *pqItem) bool {
		for _, m := range model {
			if less(m, x) {
				return false
			}
		}
		return true
	}
	find := func(x *pqItem) int {
		for i, m := range model {
			if m == x {
				return i
			}
		}
		return -1
	}
	fail := func(i int, op pqOp, msg string) lib.Outcome {
		return lib.Outcome{Violation: fmt.Sprintf("step %d %s(prio=%d,pick=%d): %s", i, op.Kind, op.Prio, op.Pick, msg)}
	}
	for i, op := range c.Ops {
		switch op.Kind {
		case "push":
			it := &pqItem{id: nextID, prio: op.Prio, idx: -1}
			nextID++
			q.Push(it)
			model = append(model, it)
		case "pushmany":
			for k := 0; k < 100+40*(op.Pick%64); k++ {
				it := &pqItem{id: nextID, prio: (k*7 + op.Prio) % 50, idx: -1}
				nextID++
				q.Push(it)
				model = append(model, it)
			}
		case "popmany":
			for k := 0; k < 40*(op.Pick%64) && len(model) > 0; k++ {
				x, ok := q.Pop().(*pqItem)
				if !ok || x == nil {
					return fail(i, op, "Pop returned a foreign value")
				}
				j := find(x)
				if j < 0 {
					return fail(i, op, fmt.Sprintf("Pop %d of the run returned item %d which is not queued (any more)", k, x.id))
				}
				if !isMinimal(x) {
					return fail(i, op, fmt.Sprintf("Pop %d of the run returned prio %d but a smaller element is queued", k, x.prio))
				}
				model = append(model[:j], model[j+1:]...)
				pops++
				if q.Len() != len(model) {
					return fail(i, op, fmt.Sprintf("after pop %d of the run Len = %d, model %d", k, q.Len(), len(model)))
				}
			}
		case "pop":
			if len(model) == 0 {
				continue
			}
			x, ok := q.Pop().(*pqItem)
			if !ok || x == nil {
				return fail(i, op, "Pop returned a foreign value")
			}
			k := find(x)
			if k < 0 {
				return fail(i, op, fmt.Sprintf("Pop returned item %d which is not queued", x.id))
			}
			if !isMinimal(x) {
				return fail(i, op, fmt.Sprintf("Pop returned prio %d but a smaller element is queued", x.prio))
			}
			model = append(model[:k], model[k+1:]...)
			pops++
		case "min":
			if len(model) == 0 {
				continue
			}
			x, ok := q.Min().(*pqItem)
			if !ok || x == nil || find(x) < 0 {
				return fail(i, op, "Min returned a value that is not queued")
			}
			if !isMinimal(x) {
				return fail(i, op, fmt.Sprintf("Min returned prio %d but a smaller element is queued", x.prio))
			}
		case "fix":
			if len(model) == 0 || !c.SetIndex {
				continue
			}
			it := model[op.Pick%len(model)]
			it.prio = op.Prio
			q.Fix(it.idx)
			fixes++
		case "remove":
			if len(model) == 0 || !c.SetIndex {
				continue
			}
			k := op.Pick % len(model)
			it := model[k]
			q.Remove(it.idx)
			model = append(model[:k], model[k+1:]...)
			removes++
		default:
			return lib.Outcome{Skip: "malformed"}
		}
		if len(model) > maxLen {
			maxLen = len(model)
		}
		if q.Len() != len(model) {
			return fail(i, op, fmt.Sprintf("Len = %d, model %d", q.Len(), len(model)))
		}
		if len(q.heap.a) != len(model) {
			return fail(i, op, fmt.Sprintf("backing array has %d entries, model %d", len(q.heap.a), len(model)))
		}
		if c.SetIndex {
			for _, m := range model {
				if m.idx < 0 || m.idx >= len(q.heap.a) || q.heap.a[m.idx] != interface{}(m) {
					return fail(i, op, fmt.Sprintf("reported index %d of item %d (prio %d) does not hold that item", m.idx, m.id, m.prio))
				}
			}
		}
	}
	// drain: sorted under the comparator, multiset conserved
	want := map[int]int{}
	for _, m := range model {
		want[m.id]++
	}
	var drained []*pqItem
	for q.Len() > 0 {
		x, ok := q.Pop().(*pqItem)
		if !ok || x == nil {
			return lib.Outcome{Violation: "drain: Pop returned a foreign value"}
		}
		drained = append(drained, x)
		if len(drained) > len(model)+1 {
			break
		}
	}
	if len(drained) != len(model) {
		return lib.Outcome{Violation: fmt.Sprintf("drain: got %d items, model has %d", len(drained), len(model))}
	}
	for i, x := range drained {
		want[x.id]--
		if i > 0 && less(x, drained[i-1]) {
			return lib.Outcome{Violation: fmt.Sprintf("drain: item %d (prio %d) popped after prio %d", x.id, x.prio, drained[i-1].prio)}
		}
	}
	var ids []int
	for id := range want {
		ids = append(ids, id)
	}
	sort.Ints(ids)
	for _, id := range ids {
		if want[id] != 0 {
			return lib.Outcome{Violation: fmt.Sprintf("drain: multiset not conserved for item %d (%+d)", id, -want[id])}
		}
	}
	o := lib.Outcome{Nontrivial: pops+len(drained) > 1 && (fixes+removes > 0 || !c.SetIndex)}
	if fixes > 0 {
		o.Classes = append(o.Classes, "has-fix")
	}
	if removes > 0 {
		o.Classes = append(o.Classes, "has-remove")
	}
	if c.Desc {
		o.Classes = append(o.Classes, "descending-comparator")
	}
	if !c.SetIndex {
		o.Classes = append(o.Classes, "no-setIndex")
	}
	if maxLen >= 1024 {
		o.Classes = append(o.Classes, "queue-grew-beyond-1024-items")
	} else if maxLen >= 100 {
		o.Classes = append(o.Classes, "queue-grew-beyond-100-items")
	}
	if o.Nontrivial {
		b, _ := json.Marshal(c)
		o.FP = string(b)
	}
	return o
}

// pqEnum: all operation sequences up to length L over {push 0, push 1, push 2, pop, fix(first->p), remove(k)}.
func pqEnum(yield func(interface{}) bool) {
	acts := []pqOp{{Kind: "push", Prio: 0}, {Kind: "push", Prio: 1}, {Kind: "push", Prio: 2}, {Kind: "pop"},
		{Kind: "fix", Prio: 0, Pick: 0}, {Kind: "fix", Prio: 3, Pick: 0}, {Kind: "fix", Prio: 1, Pick: 1}, {Kind: "fix", Prio: 3, Pick: 2},
		{Kind: "remove", Pick: 0}, {Kind: "remove", Pick: 1}, {Kind: "remove", Pick: 2}}
	L := 5
	if lib.Tier() == "thorough" {
		L = 7
	}
	shard, nshards := lib.EnvInt("VERIF_SHARD", 0), lib.EnvInt("VERIF_NSHARDS", 1)
	idx := 0
	var rec func(prefix []pqOp) bool
	rec = func(prefix []pqOp) bool {
		if len(prefix) > 0 {
			idx++
			if idx%nshards == shard {
				for _, desc := range []bool{false, true} {
					if !yield(&pqCase{Desc: desc, SetIndex: true, Ops: append([]pqOp(nil), prefix...)}) {
						return false
					}
				}
			}
		}
		if len(prefix) == L {
			return true
		}
		for _, a := range acts {
			if !rec(append(prefix, a)) {
				return false
			}
		}
		return true
	}
	rec(nil)
}

func TestVerif_C20_PQRandom(t *testing.T) {
	lib.Run(t, lib.Spec{ID: "C20", Part: "pq-random",
		Rule: "1-60 operations (push/pop/min/fix/remove, priorities 0-6 with duplicates; one case in eight also pushes 100-2620 items at once and pops runs of up to 2520, both comparator directions, with and without setIndex) against a list model; non-trivial = at least two pops/drains and (a Fix or Remove through a reported index, or no setIndex); distinct = distinct op sequence",
		New:  func() interface{} { return &pqCase{} }, Gen: pqGen, Check: pqCheck})
}

func TestVerif_C20_PQEnum(t *testing.T) {
	lib.Run(t, lib.Spec{ID: "C20", Part: "pq-enum",
		Rule: "all operation sequences up to length 5 (quick) / 7 (thorough) over 11 actions x both comparator directions",
		New:  func() interface{} { return &pqCase{} }, Enum: pqEnum, Exhaustive: true,
		Check: func(c interface{}) lib.Outcome { o := pqCheck(c); o.FP = ""; return o }})
}
