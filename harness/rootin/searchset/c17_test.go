//go:build verif

package searchset

// C17 (candidate ranges): every candidate FindPotentialMatches returns is non-empty, ordered by target
// position, lies within the target's token bounds and converts to a byte range with start <= end inside
// the target string.

import (
	"fmt"
	"strings"
	"testing"

	"pgregory.net/rapid"
	"verif/lib"
)

type c17PMCase struct {
	Vocab int   `json:"vocab"`
	Src   []int `json:"src"`
	Tgt   []int `json:"tgt"`
	Gran  int   `json:"gran"`
}

var c17Words = []string{"a", "b", "c", "the", "of", "license", "x", "y", ".", ",", "(", "é"}

func c17Text(ws []int, vocab int) string {
	var parts []string
	for _, w := range ws {
		parts = append(parts, c17Words[((w%vocab)+vocab)%vocab])
	}
	return strings.Join(parts, " ")
}

func c17PMGen(t *rapid.T) interface{} {
	c := &c17PMCase{Vocab: lib.IntN(t, 1, 8, "vocab"), Gran: DefaultGranularity}
	if lib.IntN(t, 0, 5, "otherGran") == 0 {
		c.Gran = lib.IntN(t, 1, 6, "gran")
	}
	c.Src = lib.Ints(t, 0, 120, 0, 11, "src")
	// target: mixture of random words and (shuffled, repeated, truncated) pieces of the source
	n := lib.IntN(t, 0, 12, "pieces")
	for i := 0; i < n; i++ {
		switch lib.IntN(t, 0, 3, "piece") {
		case 0:
			c.Tgt = append(c.Tgt, lib.Ints(t, 0, 30, 0, 11, "noise")...)
		default:
			if len(c.Src) == 0 {
				continue
			}
			s := lib.IntN(t, 0, len(c.Src)-1, "from")
			e := s + lib.IntN(t, 1, len(c.Src), "len")
			if e > len(c.Src) {
				e = len(c.Src)
			}
			c.Tgt = append(c.Tgt, c.Src[s:e]...)
		}
	}
	return c
}

func c17PMCheck(ci interface{}) lib.Outcome {
	c := ci.(*c17PMCase)
	if c.Vocab < 1 || c.Vocab > len(c17Words) || c.Gran < 1 || c.Gran > 16 || len(c.Src) > 2000 || len(c.Tgt) > 5000 {
		return lib.Outcome{Skip: "malformed"}
	}
	srcS, tgtS := c17Text(c.Src, c.Vocab), c17Text(c.Tgt, c.Vocab)
	src, tgt := New(srcS, c.Gran), New(tgtS, c.Gran)
	mrs := FindPotentialMatches(src, tgt)
	desc := fmt.Sprintf("FindPotentialMatches(src=%q, target=%q, granularity %d)", srcS, tgtS, c.Gran)
	for i, mr := range mrs {
		if len(mr) == 0 {
			return lib.Outcome{Violation: fmt.Sprintf("%s: candidate %d is empty", desc, i)}
		}
		prev := -1
		for j, r := range mr {
			if r == nil {
				return lib.Outcome{Violation: fmt.Sprintf("%s: candidate %d range %d is nil", desc, i, j)}
			}
			if !(0 <= r.TargetStart && r.TargetStart < r.TargetEnd && r.TargetEnd <= len(tgt.Tokens)) {
				return lib.Outcome{Violation: fmt.Sprintf("%s: candidate %d range %d = %v is not a non-empty range inside the %d target tokens", desc, i, j, r, len(tgt.Tokens))}
			}
			if r.TargetStart < prev {
				return lib.Outcome{Violation: fmt.Sprintf("%s: candidate %d is not ordered by target position at range %d: %v", desc, i, j, mr)}
			}
			prev = r.TargetStart
		}
		start, end := mr.TargetRange(tgt) // a panic here is recovered by the runner and reported
		if !(0 <= start && start <= end && end <= len(tgtS)) {
			return lib.Outcome{Violation: fmt.Sprintf("%s: candidate %d = %v converts to byte range [%d,%d) of a %d byte target", desc, i, mr, start, end, len(tgtS))}
		}
		_ = tgtS[start:end]
	}
	classes := []string{fmt.Sprintf("vocab-%d", c.Vocab)}
	if len(mrs) > 1 {
		classes = append(classes, "several-candidates")
	}
	return lib.Outcome{Nontrivial: len(mrs) > 0, FP: fmt.Sprintf("%d|%v|%v|%d", c.Vocab, c.Src, c.Tgt, c.Gran), Classes: classes,
		Sample: map[string]interface{}{"src": clipS(srcS), "target": clipS(tgtS), "candidates": len(mrs)}}
}

func clipS(s string) string {
	if len(s) > 120 {
		return s[:120] + "..."
	}
	return s
}

func TestVerif_C17_Candidates(t *testing.T) {
	lib.Run(t, lib.Spec{ID: "C17", Part: "candidates",
		Rule: "source = 0-120 words over a vocabulary of 1-8 words (highly repetitive, incl. punctuation tokens), target = up to 12 pieces, each random words or a (repeated, truncated, reordered) slice of the source; granularity 3 (sometimes 1-6); oracle: every candidate non-empty, ranges non-empty and inside the target tokens, ordered by target position, TargetRange gives 0 <= start <= end <= len(target) without panicking; non-trivial = at least one candidate; distinct = distinct (vocabulary, source, target, granularity)",
		New:  func() interface{} { return &c17PMCase{} }, Gen: c17PMGen, Check: c17PMCheck})
}
