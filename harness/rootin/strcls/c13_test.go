//go:build verif

package stringclassifier

// C13: the v1 string classifier finds verbatim occurrences exactly; any value is accepted.

import (
	"fmt"
	"strings"
	"testing"

	"pgregory.net/rapid"
	"verif/lib"
)

type c13Piece struct {
	Value int   `json:"v"`           // index of a planted value, or -1 for filler
	Fill  []int `json:"f,omitempty"` // filler vocabulary indices
	// Glue: the copy is glued to a word character without a blank in between (1 in front, 2 behind, 3 both): the copy
	// is still there byte for byte, but it does not start / end at a token boundary of the unknown string.
	Glue int `json:"glue,omitempty"`
}

type c13Case struct {
	Vocab   []string   `json:"vocab"`
	Values  [][]int    `json:"values"` // vocabulary indices; index -1 stands for the value's unique token
	Norms   []string   `json:"norms"`
	Thr     float64    `json:"thr"`
	Unknown []c13Piece `json:"unknown"`
	// Pad gives each value optional leading / trailing white space (0 none, 1 leading blank, 2 trailing newline,
	// 3 both, 4 trailing blank): values are arbitrary strings, and without TrimSpace the white space is part of them.
	Pad []int `json:"pad,omitempty"`
	// Alone: the unknown string is exactly one planted value, nothing around it.
	Alone bool `json:"alone,omitempty"`
	// Sep puts a separator word between the pieces of the unknown string, so that the white space belonging to a
	// padded value is not shared with its neighbour (copies of different values that overlap are out of domain).
	Sep bool `json:"sep,omitempty"`
	// Twin: value Twin[0] gets a near-duplicate appended to the value list: the same text with one letter of one word
	// changed at position Twin[1] (neither contains the other; for long values their mutual confidence is above 0.99).
	Twin []int `json:"twin,omitempty"`
	// MinDiff (when > 0): the classifier's MinDiffRatio is set to MinDiff-1 (so 1 stands for 0, "consider all known
	// values", and 2 for 1.0), a legal non-default configuration.
	MinDiff float64 `json:"mindiff,omitempty"`
}

var c13VocabPools = map[string][]string{
	"letters": {"the", "software", "is", "provided", "as", "License", "GRANTED", "copy", "of", "and", "to", "in", "Use", "a", "b", "c"},
	"digits":  {"1", "2", "42", "2.0", "3", "1999", "v2", "x86"},
	"punct":   {".", ",", ";", ":", "!", "?", "-", "_", "'", "\"", "/", "#", "%", "&", "@", "a,b", "end.", "x-y", "it's"},
	"regex":   {"(", ")", "[", "]", "{", "}", "*", "+", "?", "|", "^", "$", "\\", ".", "a(b", "a[b", "*x", "a\\", "a+b", "(c)", "x{2}", "[a-z]", "a|b", "^a", "b$", "\\d", "(?i)"},
	"unicode": {"é", "naïve", "日本", "語", "«", "»", "“quoted”", "—", "…", "ß", "İ", "𝐀", "ǅ"},
	"invalid": {"\xff", "a\xffb", "\xc3", "\xe2\x80", "\xf4\x90\x80\x80", "ok\x80"},
}

var c13PoolNames = []string{"letters", "digits", "punct", "regex", "unicode", "invalid"}
var c13NormNames = []string{"flatten", "lower", "trim", "identity"}

func c13Norm(name string) NormalizeFunc {
	switch name {
	case "flatten":
		return FlattenWhitespace
	case "lower":
		return strings.ToLower
	case "trim":
		return strings.TrimSpace
	}
	return func(s string) string { return s }
}

func c13Gen(t *rapid.T) interface{} {
	c := &c13Case{}
	npools := lib.IntN(t, 1, 3, "npools")
	for i := 0; i < npools; i++ {
		pool := c13VocabPools[lib.PickStr(t, c13PoolNames, "pool")]
		n := lib.IntN(t, 1, len(pool), "take")
		for j := 0; j < n; j++ {
			c.Vocab = append(c.Vocab, pool[lib.IntN(t, 0, len(pool)-1, "word")])
		}
	}
	nv := lib.IntN(t, 1, 8, "nvalues")
	if lib.IntN(t, 0, 9, "manyValues") == 0 {
		nv = lib.IntN(t, 9, 14, "nvaluesMany") // keys key1 / key10 .. key13: one key is another key plus digits
	}
	for i := 0; i < nv; i++ {
		n := lib.IntN(t, 1, 60, "ntokens")
		if lib.IntN(t, 0, 4, "short") == 0 {
			n = lib.IntN(t, 1, 5, "ntokensShort")
		}
		v := lib.Ints(t, n-1, n-1, 0, len(c.Vocab)-1, "valueTokens")
		pos := lib.IntN(t, 0, len(v), "uniquePos")
		v = append(v[:pos:pos], append([]int{-1}, v[pos:]...)...)
		c.Values = append(c.Values, v)
	}
	if lib.IntN(t, 0, 3, "twin") == 0 {
		c.Twin = []int{lib.IntN(t, 0, nv-1, "twinOf"), lib.IntN(t, 0, 400, "twinPos")}
		// a long value: one changed letter in more than 200 bytes keeps the two texts more than 99.5 % alike
		lo, hi := 50, 70
		scaleN := 20
		if lib.Tier() == "thorough" {
			scaleN = 2000 // two million cases: keep the number of very long values in the hundreds
		}
		switch sc := lib.IntN(t, 0, scaleN-1, "twinScale"); {
		case sc >= scaleN-20 && sc%20 == 17, sc >= scaleN-20 && sc%20 == 18: // more than 1000 bytes: the two texts are more than 99.9 % alike
			lo, hi = 300, 700
		case sc == scaleN-1: // more than 10000 bytes: more than 99.99 % alike (a "tolerance" in a confidence comparison shows here)
			lo, hi = 700, 900 // values beyond 10000 bytes made single cases take minutes at some seeds; withdrawn
		}
		v := lib.Ints(t, lo, hi, 0, len(c.Vocab)-1, "twinValueTokens")
		pos := lib.IntN(t, 0, len(v), "twinUniquePos")
		c.Values[c.Twin[0]] = append(v[:pos:pos], append([]int{-1}, v[pos:]...)...)
	}
	if lib.IntN(t, 0, 3, "minDiff") == 0 {
		c.MinDiff = 1 + lib.PickFloat(t, []float64{0, 0, 0.5, 1.0}, "minDiffRatio")
	}
	nn := lib.IntN(t, 0, 3, "nnorms")
	for i := 0; i < nn; i++ {
		c.Norms = append(c.Norms, lib.PickStr(t, c13NormNames, "norm"))
	}
	c.Thr = lib.PickFloat(t, []float64{0.01, 0.3, 0.5, 0.8, 0.9, 1.0}, "thr")
	if lib.IntN(t, 0, 3, "padded") == 0 {
		c.Pad = lib.Ints(t, nv, nv, 0, 4, "pad")
		c.Sep = lib.IntN(t, 0, 3, "sep") > 0
	}
	if lib.IntN(t, 0, 5, "alone") == 0 {
		c.Alone = true
		c.Unknown = []c13Piece{{Value: lib.IntN(t, 0, nv-1, "planted")}}
		return c
	}
	np := lib.IntN(t, 1, 7, "npieces")
	if len(c.Twin) == 2 && len(c.Values[c.Twin[0]]) > 1000 && np > 2 {
		np = 2 // a value of more than 10000 bytes: two pieces keep the unknown string (and the run time) bounded
	}
	for i := 0; i < np; i++ {
		if lib.IntN(t, 0, 2, "pieceKind") == 0 {
			c.Unknown = append(c.Unknown, c13Piece{Value: -1, Fill: lib.Ints(t, 0, 25, 0, len(c.Vocab)-1, "filler")})
		} else {
			pc := c13Piece{Value: lib.IntN(t, 0, nv-1, "planted")}
			if len(c.Twin) == 2 && lib.IntN(t, 0, 2, "plantTwin") == 0 {
				pc.Value = nv // the near-duplicate itself (it is appended to the value list as entry nv)
			}
			if lib.IntN(t, 0, 4, "glued") == 0 {
				pc.Glue = lib.IntN(t, 1, 3, "glue")
			}
			c.Unknown = append(c.Unknown, pc)
		}
	}
	return c
}

func c13ValueText(c *c13Case, i int) string {
	var parts []string
	for _, w := range c.Values[i] {
		if w < 0 {
			parts = append(parts, fmt.Sprintf("uq%dx", i))
		} else {
			parts = append(parts, c.Vocab[((w%len(c.Vocab))+len(c.Vocab))%len(c.Vocab)])
		}
	}
	t := strings.Join(parts, " ")
	if i < len(c.Pad) {
		switch c.Pad[i] % 5 {
		case 1:
			t = " " + t
		case 2:
			t = t + "\n"
		case 3:
			t = "  " + t + " \n"
		case 4:
			t = t + " "
		}
	}
	return t
}

func c13Check(ci interface{}) lib.Outcome {
	c := ci.(*c13Case)
	if len(c.Vocab) == 0 || len(c.Values) == 0 || len(c.Values) > 32 || !(c.Thr > 0 && c.Thr <= 1) {
		return lib.Outcome{Skip: "malformed"}
	}
	var fns []NormalizeFunc
	for _, n := range c.Norms {
		fns = append(fns, c13Norm(n))
	}
	norm := func(s string) string {
		for _, f := range fns {
			s = f(s)
		}
		return s
	}
	cl := New(c.Thr, fns...)
	values := make([]string, len(c.Values))
	for i := range c.Values {
		hasUnique := false
		for _, w := range c.Values[i] {
			if w < 0 {
				hasUnique = true
			}
		}
		if !hasUnique || len(c.Values[i]) > 8000 {
			return lib.Outcome{Skip: "malformed"}
		}
		values[i] = c13ValueText(c, i)
		// registering any string must not panic (a panic is recovered by the runner and reported with this case)
		if err := cl.AddValue(fmt.Sprintf("key%d", i), values[i]); err != nil {
			return lib.Outcome{Violation: fmt.Sprintf("AddValue(key%d, %q) returned error %v", i, values[i], err)}
		}
	}
	if len(c.Twin) == 2 && len(values) > 0 {
		src := values[((c.Twin[0]%len(values))+len(values))%len(values)]
		// change one ASCII letter that is not part of the unique token
		b := []byte(src)
		uq := fmt.Sprintf("uq%dx", ((c.Twin[0]%len(values))+len(values))%len(values))
		lo := strings.Index(src, uq)
		for k := 0; k < len(b); k++ {
			i := (c.Twin[1] + k) % len(b)
			if (b[i] >= 'a' && b[i] <= 'y' || b[i] >= 'A' && b[i] <= 'Y') && (lo < 0 || i < lo || i >= lo+len(uq)) {
				b[i]++
				tw := string(b)
				if err := cl.AddValue(fmt.Sprintf("key%d", len(values)), tw); err != nil {
					return lib.Outcome{Violation: fmt.Sprintf("AddValue(key%d, %q) returned error %v", len(values), tw, err)}
				}
				values = append(values, tw)
				break
			}
		}
	}
	if c.MinDiff >= 1 && c.MinDiff <= 2 {
		cl.MinDiffRatio = c.MinDiff - 1
	}
	var parts []string
	glued := false
	for k, p := range c.Unknown {
		if c.Sep && k > 0 {
			parts = append(parts, "sepword")
		}
		if p.Value >= 0 {
			v := values[p.Value%len(values)]
			if p.Glue%4 == 1 || p.Glue%4 == 3 {
				v = "zq" + v
			}
			if p.Glue%4 >= 2 {
				v = v + "qz"
			}
			if p.Glue%4 != 0 {
				glued = true
			}
			parts = append(parts, v)
		} else {
			for _, w := range p.Fill {
				parts = append(parts, c.Vocab[((w%len(c.Vocab))+len(c.Vocab))%len(c.Vocab)])
			}
		}
	}
	unknown := strings.Join(parts, " ")
	if c.Alone && len(c.Unknown) == 1 && c.Unknown[0].Value >= 0 {
		unknown = values[c.Unknown[0].Value%len(values)]
	}
	nu := norm(unknown)
	desc := fmt.Sprintf("normalisers %v, threshold %v, values %q, unknown %q", c.Norms, c.Thr, values, unknown)
	res := cl.MultipleMatch(unknown)
	// every reported match lies inside the normalised unknown string and has a confidence in (0,1]
	for _, m := range res {
		if !(m.Confidence > 0 && m.Confidence <= 1) {
			return lib.Outcome{Violation: fmt.Sprintf("%s: MultipleMatch reported confidence %v for %s", desc, m.Confidence, m.Name)}
		}
		if m.Offset < 0 || m.Extent < 0 || m.Offset+m.Extent > len(nu) {
			return lib.Outcome{Violation: fmt.Sprintf("%s: MultipleMatch reported %s at Offset %d Extent %d, outside the %d-byte normalised unknown", desc, m.Name, m.Offset, m.Extent, len(nu))}
		}
	}
	// copies of different values that overlap each other in the normalised unknown are out of domain: reporting one
	// match per region is the purpose of the de-duplication step, and the statement speaks of copies, not of overlaps
	type occ struct{ from, to int }
	var occs []occ
	for _, v := range values {
		nv := norm(v)
		if nv == "" {
			continue
		}
		for from := 0; ; {
			k := strings.Index(nu[from:], nv)
			if k < 0 {
				break
			}
			occs = append(occs, occ{from + k, from + k + len(nv)})
			from += k + len(nv)
		}
	}
	for i := range occs {
		for j := i + 1; j < len(occs); j++ {
			if occs[i].from < occs[j].to && occs[j].from < occs[i].to {
				return lib.Outcome{Skip: "copies-overlap"}
			}
		}
	}
	planted := 0
	meta, nonASCII, oneToken := false, false, false
	for i, v := range values {
		nv := norm(v)
		if nv == "" {
			continue
		}
		if strings.ContainsAny(nv, `\.+*?()|[]{}^$`) {
			meta = true
		}
		for _, b := range []byte(nv) {
			if b >= 0x80 {
				nonASCII = true
			}
		}
		// occurrences, scanned left to right without overlap (premise: verbatim post-normalisation copies)
		from := 0
		for {
			k := strings.Index(nu[from:], nv)
			if k < 0 {
				break
			}
			off := from + k
			found := false
			for _, m := range res {
				if m.Name == fmt.Sprintf("key%d", i) && m.Confidence == 1.0 && m.Offset == off && m.Extent == len(nv) {
					found = true
				}
			}
			if !found {
				var got []string
				for _, m := range res {
					got = append(got, fmt.Sprintf("{%s %v %d %d}", m.Name, m.Confidence, m.Offset, m.Extent))
				}
				return lib.Outcome{Violation: fmt.Sprintf("%s: verbatim copy of key%d at byte %d (length %d) of the normalised unknown %q is not reported as {key%d 1 %d %d}; MultipleMatch returned %v", desc, i, off, len(nv), nu, i, off, len(nv), got)}
			}
			planted++
			if len(strings.Fields(nv)) == 1 {
				oneToken = true
			}
			from = off + len(nv)
		}
		// NearestMatch of a string equal to a known value
		nm := cl.NearestMatch(v)
		if nm == nil || nm.Name != fmt.Sprintf("key%d", i) || nm.Confidence != 1.0 {
			return lib.Outcome{Violation: fmt.Sprintf("%s: NearestMatch(value %d) = %+v, want {key%d 1}", desc, i, nm, i)}
		}
		if nm.Offset < 0 || nm.Extent < 0 || nm.Offset+nm.Extent > len(nv) {
			return lib.Outcome{Violation: fmt.Sprintf("%s: NearestMatch(value %d) reports Offset %d Extent %d, outside the %d-byte normalised input", desc, i, nm.Offset, nm.Extent, len(nv))}
		}
	}
	nm := cl.NearestMatch(unknown)
	if nm != nil && nm.Name != "" && !(nm.Confidence > 0 && nm.Confidence <= 1) {
		return lib.Outcome{Violation: fmt.Sprintf("%s: NearestMatch(unknown) reported confidence %v", desc, nm.Confidence)}
	}
	if nm != nil && nm.Name != "" && (nm.Offset < 0 || nm.Extent < 0 || nm.Offset+nm.Extent > len(nu)) {
		return lib.Outcome{Violation: fmt.Sprintf("%s: NearestMatch(unknown) reports Offset %d Extent %d, outside the %d-byte normalised unknown", desc, nm.Offset, nm.Extent, len(nu))}
	}
	var classes []string
	if meta {
		classes = append(classes, "regex-metacharacters")
	}
	if nonASCII {
		classes = append(classes, "non-ascii-or-invalid-utf8")
	}
	if oneToken {
		classes = append(classes, "one-token-value-planted")
	}
	if planted > 1 {
		classes = append(classes, "several-copies")
	}
	if c.Alone {
		classes = append(classes, "unknown-equals-value")
	}
	if glued {
		classes = append(classes, "copy-glued-to-word-characters")
	}
	if len(values) > len(c.Values) {
		classes = append(classes, "near-duplicate-value-in-the-set")
	}
	if c.MinDiff >= 1 && c.MinDiff <= 2 {
		classes = append(classes, fmt.Sprintf("MinDiffRatio-%v", c.MinDiff-1))
	}
	if len(c.Pad) > 0 {
		classes = append(classes, "values-with-leading/trailing-white-space")
	}
	return lib.Outcome{Nontrivial: planted > 0 && (meta || nonASCII || planted > 1 || c.Alone || len(c.Pad) > 0), FP: desc, Classes: classes,
		Sample: map[string]interface{}{"norms": c.Norms, "threshold": c.Thr, "values": values, "unknown": unknown, "copies": planted}}
}

func TestVerif_C13(t *testing.T) {
	lib.Run(t, lib.Spec{ID: "C13", Part: "verbatim",
		Rule: "vocabulary mixed from letters / digits / ASCII punctuation / regular-expression metacharacters / Unicode / invalid UTF-8; 1-8 known values of 1-60 whitespace separated tokens, each with one token unique to it (none occurs inside another); 0-3 normalisers from {FlattenWhitespace, ToLower, TrimSpace, identity}; thresholds 0.01-1; unknown = filler and planted copies separated by blanks, or exactly one value; copies optionally glued to word characters (not at a token boundary); values optionally with leading / trailing white space; oracle: AddValue never panics, every verbatim copy in the normalised unknown reported as {key, 1.0, exact Offset, exact Extent}, NearestMatch(value) = {key, 1.0}, all results inside the normalised unknown with confidence in (0,1]; non-trivial = a planted copy and (metacharacters or non-ASCII or several copies)",
		New:  func() interface{} { return &c13Case{} }, Gen: c13Gen, Check: c13Check})
}
