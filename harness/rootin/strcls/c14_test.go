//go:build verif

package stringclassifier

// C14 (stringclassifier part): concurrent MultipleMatch / NearestMatch / AddValue on one Classifier are free
// of data races (binary built with -race) and return what the same calls return sequentially.

import (
	"fmt"
	"strings"
	"sync"
	"testing"
	"time"

	"github.com/google/licenseclassifier/stringclassifier/searchset"
	"pgregory.net/rapid"
	"verif/lib"
)

type c14Op struct {
	Kind  string `json:"k"` // multi | nearest | add
	Query int    `json:"q"`
}

type c14Case struct {
	Values      [][]int   `json:"values"`
	Precomputed bool      `json:"precomputed"`
	Queries     [][]int   `json:"queries"` // each: value index followed by edit positions
	Ops         [][]c14Op `json:"ops"`     // per goroutine
	// Nested: one more known value that is the first 12 words of value 0 (a value contained in another one, like a
	// license header inside its license): an input with value 0 then holds two exact copies that overlap.
	Nested bool `json:"nested,omitempty"`
}

var c14Words = strings.Fields("permission is hereby granted free of charge to any person obtaining a copy of this software and associated documentation files the to deal in without restriction including limitation rights use modify merge publish distribute sublicense sell copies permit persons whom furnished do so subject following conditions above copyright notice shall be included all substantial portions provided as warranty kind express implied")

func c14Text(ws []int) string {
	var p []string
	for _, w := range ws {
		p = append(p, c14Words[((w%len(c14Words))+len(c14Words))%len(c14Words)])
	}
	return strings.Join(p, " ")
}

func c14Gen(t *rapid.T) interface{} {
	c := &c14Case{Precomputed: lib.Bool(t, "precomputed"), Nested: lib.IntN(t, 0, 2, "nested") == 0}
	nv := lib.IntN(t, 2, 8, "nvalues")
	for i := 0; i < nv; i++ {
		c.Values = append(c.Values, lib.Ints(t, 25, 90, 0, len(c14Words)-1, "value"))
	}
	nq := lib.IntN(t, 2, 6, "nqueries")
	for i := 0; i < nq; i++ {
		q := []int{lib.IntN(t, 0, nv-1, "of")}
		q = append(q, lib.Ints(t, 0, 4, 0, 200, "edits")...)
		if lib.IntN(t, 0, 3, "tinyQuery") == 0 {
			// a text of zero to three words (first element -1): too short for a single hash window
			q = append([]int{-1}, lib.Ints(t, 0, 3, 0, 200, "tinyWords")...)
		}
		c.Queries = append(c.Queries, q)
	}
	g := lib.PickInt(t, []int{2, 3, 4, 8, 16}, "goroutines")
	for i := 0; i < g; i++ {
		n := lib.IntN(t, 1, 4, "nops")
		var ops []c14Op
		for j := 0; j < n; j++ {
			ops = append(ops, c14Op{Kind: lib.PickStr(t, []string{"multi", "multi", "nearest", "add", "add-same-key"}, "kind"), Query: lib.IntN(t, 0, nq-1, "query")})
		}
		c.Ops = append(c.Ops, ops)
	}
	return c
}

func c14Populate(c *c14Case) (*Classifier, error) {
	cl := New(0.8, FlattenWhitespace)
	for i, v := range c.Values {
		txt := c14Text(v) + fmt.Sprintf(" valuemarker%d", i)
		var err error
		if c.Precomputed {
			err = cl.AddPrecomputedValue(fmt.Sprintf("v%d", i), txt, searchset.New(txt, searchset.DefaultGranularity))
		} else {
			err = cl.AddValue(fmt.Sprintf("v%d", i), txt)
		}
		if err != nil {
			return nil, err
		}
	}
	if c.Nested && len(c.Values) > 0 && len(c.Values[0]) >= 12 {
		txt := c14Text(c.Values[0][:12])
		var err error
		if c.Precomputed {
			err = cl.AddPrecomputedValue("nested-in-v0", txt, searchset.New(txt, searchset.DefaultGranularity))
		} else {
			err = cl.AddValue("nested-in-v0", txt)
		}
		if err != nil {
			return nil, err
		}
	}
	return cl, nil
}

func c14Query(c *c14Case, q []int) string {
	if q[0] < 0 {
		return c14Text(q[1:])
	}
	v := c.Values[q[0]%len(c.Values)]
	w := append([]int{}, v...)
	for _, e := range q[1:] {
		if len(w) > 10 {
			k := e % len(w)
			w = append(w[:k], w[k+1:]...) // delete a word: the best match stays unique
		}
	}
	return "preface words here " + c14Text(w) + fmt.Sprintf(" valuemarker%d", q[0]%len(c.Values)) + " trailing words there"
}

func c14Render(ms Matches) string {
	var sb strings.Builder
	for _, m := range ms {
		fmt.Fprintf(&sb, "{%s %b %d %d}", m.Name, m.Confidence, m.Offset, m.Extent)
	}
	return sb.String()
}

func c14Check(ci interface{}) lib.Outcome {
	c := ci.(*c14Case)
	if len(c.Values) == 0 || len(c.Queries) == 0 || len(c.Ops) == 0 || len(c.Ops) > 64 {
		return lib.Outcome{Skip: "malformed"}
	}
	for _, q := range c.Queries {
		if len(q) == 0 {
			return lib.Outcome{Skip: "malformed"}
		}
	}
	// sequential reference on an identically populated, separate classifier
	refCl, err := c14Populate(c)
	if err != nil {
		return lib.Outcome{Skip: "populate-failed"}
	}
	queries := make([]string, len(c.Queries))
	refMulti := make([]string, len(c.Queries))
	refNearest := make([]string, len(c.Queries))
	for i, q := range c.Queries {
		queries[i] = c14Query(c, q)
		refMulti[i] = c14Render(refCl.MultipleMatch(queries[i]))
		nm := refCl.NearestMatch(queries[i])
		refNearest[i] = fmt.Sprintf("%s %b", nm.Name, nm.Confidence)
	}
	// fresh classifier: the lazily built search sets are created by the first concurrent calls
	cl, _ := c14Populate(c)
	var mu sync.Mutex
	firstBad := ""
	// per-goroutine counters, summed after the batch: the harness itself must not synchronise the goroutines
	sameKeyOKs, sameKeyCallsN := make([]int, len(c.Ops)), make([]int, len(c.Ops))
	var wg sync.WaitGroup
	start := make(chan struct{})
	for g, ops := range c.Ops {
		wg.Add(1)
		go func(g int, ops []c14Op) {
			defer wg.Done()
			<-start
			for step, op := range ops {
				i := ((op.Query % len(queries)) + len(queries)) % len(queries)
				bad := ""
				switch op.Kind {
				case "multi":
					if got := c14Render(cl.MultipleMatch(queries[i])); got != refMulti[i] {
						bad = fmt.Sprintf("goroutine %d call %d: concurrent MultipleMatch(query %d) = %s, sequentially %s", g, step, i, got, refMulti[i])
					}
				case "nearest":
					nm := cl.NearestMatch(queries[i])
					if got := fmt.Sprintf("%s %b", nm.Name, nm.Confidence); got != refNearest[i] {
						bad = fmt.Sprintf("goroutine %d call %d: concurrent NearestMatch(query %d) = %s, sequentially %s", g, step, i, got, refNearest[i])
					}
				case "add-same-key":
					// several goroutines register the same new key: sequentially exactly one such call succeeds
					err := cl.AddValue("contended-key", strings.Repeat(fmt.Sprintf("zzcontended%dq%d ", g, step), 400))
					sameKeyCallsN[g]++
					if err == nil {
						sameKeyOKs[g]++
					}
				case "add":
					// new keys whose words are disjoint from every query
					cl.AddValue(fmt.Sprintf("extra-%d-%d", g, step), strings.Repeat(fmt.Sprintf("zzunrelated%dq%d ", g, step), 30))
				}
				if bad != "" {
					mu.Lock()
					if firstBad == "" {
						firstBad = bad
					}
					mu.Unlock()
				}
			}
		}(g, ops)
	}
	close(start)
	if verdict, report := lib.WaitBatch(&wg, "c14Check.func", 20*time.Second, 10*time.Minute); verdict == "deadlock" {
		return lib.Outcome{Violation: "deadlock: the concurrent batch never finishes: " + report}
	} else if verdict == "slow" {
		return lib.Outcome{Skip: "batch-unfinished-after-10-minutes-but-not-provably-deadlocked"}
	}
	if firstBad != "" {
		return lib.Outcome{Violation: firstBad}
	}
	sameKeyOK, sameKeyCalls := 0, 0
	for g := range c.Ops {
		sameKeyOK += sameKeyOKs[g]
		sameKeyCalls += sameKeyCallsN[g]
	}
	// afterwards, sequentially: whatever the concurrent phase left behind must not show in later calls
	for i := range queries {
		if got := c14Render(cl.MultipleMatch(queries[i])); got != refMulti[i] {
			return lib.Outcome{Violation: fmt.Sprintf("after the concurrent phase, a sequential MultipleMatch(query %d) = %s, but a fresh classifier gives %s", i, got, refMulti[i])}
		}
	}
	if sameKeyCalls > 0 && sameKeyOK != 1 {
		return lib.Outcome{Violation: fmt.Sprintf("%d concurrent AddValue calls with the same new key: %d of them succeeded, sequentially exactly one does", sameKeyCalls, sameKeyOK)}
	}
	classes := []string{fmt.Sprintf("goroutines-%d", len(c.Ops))}
	if sameKeyCalls > 1 {
		classes = append(classes, "contended-AddValue-same-key")
	}
	if c.Nested {
		classes = append(classes, "a-value-nested-in-another")
	}
	if c.Precomputed {
		classes = append(classes, "precomputed-search-sets")
	} else {
		classes = append(classes, "lazy-search-sets")
	}
	return lib.Outcome{Nontrivial: len(c.Ops) >= 2, FP: fmt.Sprintf("%v|%v|%v|%v", c.Values, c.Queries, c.Ops, c.Precomputed), Classes: classes,
		Sample: map[string]interface{}{"values": len(c.Values), "queries": len(c.Queries), "goroutines": len(c.Ops), "ops": c.Ops, "precomputed": c.Precomputed}}
}

func TestVerif_C14_StringClassifier(t *testing.T) {
	lib.Run(t, lib.Spec{ID: "C14", Part: "stringclassifier",
		Rule: "2-8 known values of 25-90 words added with AddValue (lazy search sets) or AddPrecomputedValue; 2-16 goroutines released by one barrier on a fresh classifier, each issuing 1-4 of MultipleMatch / NearestMatch (queries = a value with a few words deleted, in context: unique best match) / AddValue (new keys with disjoint words; also several goroutines registering the same new key, of which exactly one must succeed); built with -race; every result compared with the sequential result on an identically populated separate classifier; non-trivial = at least 2 goroutines",
		New:  func() interface{} { return &c14Case{} }, Gen: c14Gen, Check: c14Check})
}
