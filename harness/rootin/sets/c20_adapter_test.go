//go:build verif

package sets

import (
	"sort"
	"strconv"
)

type ssE = string
type ssSet = StringSet

const ssPrefix = "stringset"

var ssUniverse = []ssE{"e", "f", "g", "h", "d", "a", "b", "c", ""}
var ssSentinel ssE = "zz-sentinel"

func ssNew(e ...ssE) *ssSet { return NewStringSet(e...) }
func ssSort(x []ssE)        { sort.Strings(x) }
func ssQuote(e ssE) string  { return strconv.Quote(e) }
