//go:build verif

package sets

import (
	"math"
	"sort"
	"strconv"
)

type ssE = int
type ssSet = IntSet

const ssPrefix = "intset"

// the extremes of int are far enough apart for a subtraction-based comparison to overflow
var ssUniverse = []ssE{math.MinInt64, math.MaxInt64, 4, 5, 6, -2, 3, -1, 1, 2, 0}
var ssSentinel ssE = 1 << 40

func ssNew(e ...ssE) *ssSet { return NewIntSet(e...) }
func ssSort(x []ssE)        { sort.Ints(x) }
func ssQuote(e ssE) string  { return "\"" + strconv.Itoa(e) + "\"" }
