//go:build verif

package commentparser

// C18: comment extraction returns exactly the comments of a source file.
// Oracle: a reference lexer written from the exported per-language tables (plus the parser's documented
// special cases), compared on all short strings over delimiter-rich alphabets and on generated programs.

import (
	"fmt"
	"os"
	"strings"
	"sync"
	"sync/atomic"
	"testing"
	"time"
	"unicode/utf8"

	"github.com/google/licenseclassifier/commentparser/language"
	"pgregory.net/rapid"
	"verif/lib"
)

type refComment struct {
	Start, End int
	Text       string
}

func hasPrefixAt(s string, pos int, p string) bool {
	return p != "" && strings.HasPrefix(s[pos:], p)
}

// refParse is the reference lexer. complete=false means the input ends inside a string or a multi-line
// comment: the tables do not settle what follows, so only the comments found before are compared.
func refParse(contents string, lang language.Language) (out []refComment, complete bool) {
	if len(contents) == 0 {
		return nil, true
	}
	s := contents
	if !strings.HasSuffix(s, "\n") {
		s += "\n"
	}
	pos, line, col := 0, 1, 0
	adv := func() rune {
		r, size := utf8.DecodeRuneInString(s[pos:])
		pos += size
		if r == '\n' {
			line++
			col = 0
		} else {
			col++
		}
		return r
	}
	skip := func(p string) {
		for range p {
			adv()
		}
	}
	multi := func() (bool, string, string) {
		if st := lang.MultilineCommentStart(); hasPrefixAt(s, pos, st) {
			return true, st, lang.MultilineCommentEnd()
		}
		if lang == language.SQL {
			if st := language.MySQL.MultilineCommentStart(); hasPrefixAt(s, pos, st) {
				return true, st, language.MySQL.MultilineCommentEnd()
			}
		}
		if lang == language.ObjectiveC {
			if st := language.Matlab.MultilineCommentStart(); hasPrefixAt(s, pos, st) {
				return true, st, language.Matlab.MultilineCommentEnd()
			}
		}
		return false, "", ""
	}
	single := func() string {
		if st := lang.SingleLineCommentStart(); hasPrefixAt(s, pos, st) {
			return st
		}
		if lang == language.SQL {
			if st := language.MySQL.SingleLineCommentStart(); hasPrefixAt(s, pos, st) {
				return st
			}
		}
		if lang == language.ObjectiveC {
			if st := language.Matlab.SingleLineCommentStart(); hasPrefixAt(s, pos, st) {
				return st
			}
		}
		return ""
	}
	for pos < len(s) {
		c, _ := utf8.DecodeRuneInString(s[pos:])
		if (c == '"' || c == '\'' || c == '`') && lang != language.HTML {
			if ok, hasEscape := lang.QuoteCharacter(c); ok {
				quote := string(c)
				doc := false
				if lang == language.Python && c != '`' && hasPrefixAt(s, pos, strings.Repeat(string(c), 3)) {
					quote = strings.Repeat(string(c), 3)
					doc = col == 0
				}
				skip(quote)
				startLine := line
				var content strings.Builder
				closed := false
				for pos < len(s) {
					c2, _ := utf8.DecodeRuneInString(s[pos:])
					if hasEscape && c2 == '\\' {
						adv() // the escape character itself is not part of the text
						if pos >= len(s) {
							return out, false
						}
						r := adv()
						if doc {
							content.WriteRune(r)
						}
						continue
					}
					if hasPrefixAt(s, pos, quote) {
						skip(quote)
						closed = true
						break
					}
					if (lang == language.JavaScript || lang == language.Perl) && c2 == '\n' {
						closed = true // a newline ends the "string" (regular expression literals)
						break
					}
					r := adv()
					if doc {
						content.WriteRune(r)
					}
				}
				if !closed {
					return out, false
				}
				if doc {
					out = append(out, refComment{startLine, line, content.String()})
				}
				continue
			}
			adv()
			continue
		}
		if ok, st, en := multi(); ok {
			skip(st)
			startLine := line
			var text strings.Builder
			nesting := 0
			closed := false
			for pos < len(s) {
				if lang.NestedComments() && hasPrefixAt(s, pos, st) {
					text.WriteString(st)
					skip(st)
					nesting++
					continue
				}
				if hasPrefixAt(s, pos, en) {
					skip(en)
					if nesting > 0 {
						text.WriteString(en)
						nesting--
						continue
					}
					closed = true
					break
				}
				text.WriteRune(adv())
			}
			if !closed {
				return out, false
			}
			out = append(out, refComment{startLine, line, text.String()})
			continue
		}
		if st := single(); st != "" {
			skip(st)
			var text strings.Builder
			for pos < len(s) {
				c2, _ := utf8.DecodeRuneInString(s[pos:])
				if c2 == '\n' {
					break
				}
				text.WriteRune(adv())
			}
			out = append(out, refComment{line, line, text.String()})
			continue
		}
		adv()
	}
	return out, true
}

type c18Case struct {
	Lang int    `json:"lang"`
	Src  []byte `json:"src"`
}

var c18AllLangs = func() []language.Language {
	var l []language.Language
	for x := language.Unknown; x <= language.Yaml; x++ {
		l = append(l, x)
	}
	return l
}()

// parseWithBudget runs Parse on its own goroutine so that a hang becomes a violation instead of a dead shard.
func parseWithBudget(src []byte, lang language.Language) (cs Comments, panicked interface{}, hung bool) {
	type res struct {
		cs Comments
		p  interface{}
	}
	ch := make(chan res, 1)
	go func() {
		defer func() {
			if p := recover(); p != nil {
				ch <- res{nil, p}
			}
		}()
		ch <- res{Parse(src, lang), nil}
	}()
	select {
	case r := <-ch:
		return r.cs, r.p, false
	case <-time.After(20 * time.Second):
		return nil, nil, true
	}
}

func c18Check(ci interface{}) lib.Outcome {
	c := ci.(*c18Case)
	if c.Lang < 0 || c.Lang >= len(c18AllLangs) || len(c.Src) > 1<<20 {
		return lib.Outcome{Skip: "malformed"}
	}
	lang := c18AllLangs[c.Lang]
	src := string(c.Src)
	desc := fmt.Sprintf("Parse(%q, language %d)", src, int(lang))
	var got Comments
	var pan interface{}
	hung := false
	if c18Direct {
		got = Parse(c.Src, lang) // a panic is recovered by the runner
	} else {
		got, pan, hung = parseWithBudget(c.Src, lang)
	}
	if hung {
		return lib.Outcome{Violation: desc + " did not return within 20 s"}
	}
	if pan != nil {
		return lib.Outcome{Violation: fmt.Sprintf("%s panicked: %v", desc, pan)}
	}
	want, complete := refParse(src, lang)
	render := func(cs Comments) string {
		var p []string
		for _, x := range cs {
			p = append(p, fmt.Sprintf("[%d-%d %q]", x.StartLine, x.EndLine, x.Text))
		}
		return strings.Join(p, " ")
	}
	renderRef := func(cs []refComment) string {
		var p []string
		for _, x := range cs {
			p = append(p, fmt.Sprintf("[%d-%d %q]", x.Start, x.End, x.Text))
		}
		return strings.Join(p, " ")
	}
	if complete && len(got) != len(want) {
		return lib.Outcome{Violation: fmt.Sprintf("%s returned %d comments %s, a straightforward lexer finds %d: %s", desc, len(got), render(got), len(want), renderRef(want))}
	}
	if !complete && len(got) < len(want) {
		return lib.Outcome{Violation: fmt.Sprintf("%s returned %d comments %s, but %d comments end before the unterminated lexeme: %s", desc, len(got), render(got), len(want), renderRef(want))}
	}
	for i, w := range want {
		g := got[i]
		// text is compared rune-wise: invalid bytes come back as U+FFFD
		if g.StartLine != w.Start || g.EndLine != w.End || g.Text != string([]rune(w.Text)) {
			return lib.Outcome{Violation: fmt.Sprintf("%s: comment %d is [%d-%d %q], a straightforward lexer finds [%d-%d %q]", desc, i, g.StartLine, g.EndLine, g.Text, w.Start, w.End, w.Text)}
		}
	}
	// ChunkIterator: every comment exactly once, in order, no empty chunk, boundaries exactly between comments a, b
	// with b.StartLine > a.StartLine + 1 (the grouping rule pinned by the repository's own test)
	if complete {
		k := 0
		var prev *Comment
		for chunk := range got.ChunkIterator() {
			if len(chunk) == 0 {
				return lib.Outcome{Violation: desc + ": ChunkIterator delivered an empty chunk"}
			}
			for j, cm := range chunk {
				if k >= len(got) || cm != got[k] {
					return lib.Outcome{Violation: fmt.Sprintf("%s: ChunkIterator delivered comment %d out of order or twice", desc, k)}
				}
				if prev != nil {
					gap := cm.StartLine > prev.StartLine+1
					if j == 0 && !gap {
						return lib.Outcome{Violation: fmt.Sprintf("%s: ChunkIterator split comments starting on lines %d and %d into separate chunks", desc, prev.StartLine, cm.StartLine)}
					}
					if j > 0 && gap {
						return lib.Outcome{Violation: fmt.Sprintf("%s: ChunkIterator grouped comments starting on lines %d and %d into one chunk", desc, prev.StartLine, cm.StartLine)}
					}
				}
				prev = cm
				k++
			}
		}
		if k != len(got) {
			return lib.Outcome{Violation: fmt.Sprintf("%s: ChunkIterator delivered %d of %d comments", desc, k, len(got))}
		}
	}
	classes := []string{}
	if !complete {
		classes = append(classes, "ends-inside-lexeme(prefix-compared)")
	}
	if len(want) > 1 {
		classes = append(classes, "several-comments")
	}
	return lib.Outcome{Nontrivial: len(want) > 0 || strings.ContainsAny(src, "\"'`"), Classes: classes, FP: fmt.Sprintf("%d|%s", c.Lang, src),
		Sample: map[string]interface{}{"language": int(lang), "source": src, "comments": renderRef(want)}}
}

// ---------------------------------------------------------------- exhaustive small scope

type c18Style struct {
	name  string
	lang  language.Language
	atoms []string
}

var c18Styles = []c18Style{
	{"bcpl/C", language.C, []string{"/", "*", "\"", "'", "\\", "\n", "a", " "}},
	{"bcpl/C-noquote", language.C, []string{"/", "*", "//", "/*", "*/", "\n", "a", " "}},
	{"bcpl/Go", language.Go, []string{"/", "*", "`", "\"", "\\", "\n", "a", " "}},
	{"bcpl/JavaScript", language.JavaScript, []string{"/", "*", "\"", "'", "\\", "\n", "a", " "}},
	{"bcpl/Swift(nested)", language.Swift, []string{"/*", "*/", "/", "*", "\"", "\n", "a", " "}},
	{"bcpl/Rust", language.Rust, []string{"/", "*", "\"", "'", "\\", "\n", "a", " "}},
	{"bcpl/ObjectiveC", language.ObjectiveC, []string{"/", "*", "%", "{", "}", "\n", "a", "\""}},
	{"shell/Python", language.Python, []string{"#", "\"", "'", "\"\"\"", "'''", "\\", "\n", "a"}},
	{"shell/Perl", language.Perl, []string{"#", "\"", "'", "\\", "\n", "a", " ", "/"}},
	{"ruby", language.Ruby, []string{"=begin", "=end", "=beg", "#", "\"", "\n", "a", " "}},
	{"html", language.HTML, []string{"<!--", "-->", "<!-", "--", "-", "\n", "a", "\""}},
	{"haskell", language.Haskell, []string{"-", "{", "}", "--", "{-", "-}", "\n", "a"}},
	{"cmake", language.CMake, []string{"#", "[", "]", "#[[", "]]", "\n", "a", "\""}},
	{"matlab", language.Matlab, []string{"%", "{", "}", "%{", "%}", "\n", "a", "'"}},
	{"sql", language.SQL, []string{"-", "#", "/", "*", "'", "\n", "a", " "}},
	{"mysql", language.MySQL, []string{"#", "/", "*", "/*", "*/", "\n", "a", "\""}},
	{"lisp", language.Lisp, []string{";", "\"", "\\", "\n", "a", " ", ";;", "'"}},
	{"batch", language.Batch, []string{"@REM", "@RE", "@", "\"", "\n", "a", " ", "R"}},
	{"fortran", language.Fortran, []string{"!", "\"", "'", "\\", "\n", "a", " ", "!!"}},
}

func langIndex(l language.Language) int {
	for i, x := range c18AllLangs {
		if x == l {
			return i
		}
	}
	return 0
}

func c18EnumStrings(atoms []string, maxLen int, shard, nshards int, idx *int, emit func(string) bool) bool {
	var rec func(prefix string, n int) bool
	rec = func(prefix string, n int) bool {
		if n > 0 {
			*idx++
			if *idx%nshards == shard {
				if !emit(prefix) {
					return false
				}
			}
		}
		if n == maxLen {
			return true
		}
		for _, a := range atoms {
			if !rec(prefix+a, n+1) {
				return false
			}
		}
		return true
	}
	return rec("", 0)
}

func c18Enum(yield func(interface{}) bool) {
	shard, nshards := lib.EnvInt("VERIF_SHARD", 0), lib.EnvInt("VERIF_NSHARDS", 1)
	n, nOwn := 5, 4
	if lib.Tier() == "thorough" {
		n, nOwn = 8, 5
	}
	idx := 0
	for _, st := range c18Styles {
		li := langIndex(st.lang)
		if !c18EnumStrings(st.atoms, n, shard, nshards, &idx, func(s string) bool { return yield(&c18Case{Lang: li, Src: []byte(s)}) }) {
			return
		}
	}
	// every language at a smaller bound over the delimiters of its own tables
	for li, l := range c18AllLangs {
		atoms := []string{"\n", "a", "\"", "'"}
		for _, d := range []string{l.SingleLineCommentStart(), l.MultilineCommentStart(), l.MultilineCommentEnd()} {
			if d != "" {
				atoms = append(atoms, d)
				if len(d) > 1 {
					atoms = append(atoms, d[:len(d)-1])
				}
			}
		}
		if !c18EnumStrings(atoms, nOwn, shard, nshards, &idx, func(s string) bool { return yield(&c18Case{Lang: li, Src: []byte(s)}) }) {
			return
		}
		// the same delimiters next to their look-alikes: every byte replaced by the Cyrillic rune with that low byte
		// (U+0400 + b), e.g. "*/" -> "\u042a\u042f"; a lexer that compares bytes with runes confuses them
		al := []string{"\n", "a"}
		for _, d := range []string{l.SingleLineCommentStart(), l.MultilineCommentStart(), l.MultilineCommentEnd()} {
			if d != "" {
				al = append(al, d, c18Alias(d))
			}
		}
		if len(al) > 8 {
			al = al[:8]
		}
		if !c18EnumStrings(al, nOwn, shard, nshards, &idx, func(s string) bool { return yield(&c18Case{Lang: li, Src: []byte(s)}) }) {
			return
		}
		// look-alikes of the quote characters (U+2122, U+0127 and U+0460 end in the bytes of ", ' and `) next to a
		// comment: a lexer that narrows a rune to a byte before asking "is this a quote" opens a string there
		ql := []string{"\n", "a", "\u2122", "\u0127", "\u0460", "\""}
		if d := l.SingleLineCommentStart(); d != "" {
			ql = append(ql, d)
		} else if d := l.MultilineCommentStart(); d != "" {
			ql = append(ql, d, l.MultilineCommentEnd())
		}
		if !c18EnumStrings(ql, nOwn, shard, nshards, &idx, func(s string) bool { return yield(&c18Case{Lang: li, Src: []byte(s)}) }) {
			return
		}
	}
}

// c18Alias replaces every byte b of an ASCII delimiter by the rune U+0400+b, whose code point has b as its low byte.
func c18Alias(d string) string {
	var sb strings.Builder
	for i := 0; i < len(d); i++ {
		sb.WriteRune(rune(0x400 + int(d[i])))
	}
	return sb.String()
}

// ---------------------------------------------------------------- generated programs

func c18Gen(t *rapid.T) interface{} {
	li := lib.IntN(t, 0, len(c18AllLangs)-1, "lang")
	l := c18AllLangs[li]
	var sb strings.Builder
	n := lib.IntN(t, 1, 30, "nlexemes")
	padded := 0
	words := []string{"x", "foo", "=", "1", "return", "é", "日本", "(", ")", ";", "*", "/", "-", "%", "#", "{", "}", "<", ">", "!", "@", "[", "]"}
	// non-ASCII text whose code points have delimiter bytes as their low byte (Cyrillic and CJK prose does that a lot)
	aliases := []string{"\u042a\u042f", "\u042f\u042a", "\u042d\u042d", "\u0423", "\u043b", "\u4e2a", "\u4e2d", "\u4e3b", "ОБЪЯВЛЕНИЕ"}
	for _, d := range []string{l.SingleLineCommentStart(), l.MultilineCommentStart(), l.MultilineCommentEnd()} {
		if d != "" {
			aliases = append(aliases, c18Alias(d))
		}
	}
	// ... and runes whose low byte is a quote character
	aliases = append(aliases, "\u2122", "\u2022", "\u0127", "\u0160", "\u0460", c18Alias("\""), c18Alias("'"))
	words = append(words, aliases...)
	// the comment delimiters of the *other* languages: inside a comment or in code of this language they are plain text
	foreign := []string{"*/", "/*", "%}", "%{", "-->", "<!--", "=end", "=begin", "]]", "#[[", "-}", "{-", "'''", "//", "--", "#", ";", "%", "!", "@REM", "REM"}
	words = append(words, foreign...)
	for i := 0; i < n; i++ {
		switch lib.IntN(t, 0, 7, "lexeme") {
		case 7: // blanks (or two-byte letters) up to a column where a narrow counter wraps: the next lexeme starts there
			padN := 3
			if lib.Tier() == "thorough" {
				padN = 15 // twenty million programs: lines of 65536 and more runes in under one per cent of them
			}
			if padded < 2 && lib.IntN(t, 0, padN, "padNow") == 0 {
				padded++
				cur := sb.String()
				col := utf8.RuneCountInString(cur[strings.LastIndexByte(cur, '\n')+1:])
				target := []int{256, 65536, 65536, 131072}[lib.IntN(t, 0, 3, "padBoundary")] + lib.IntN(t, -1, 1, "padDelta")
				if target > col {
					sb.WriteString(strings.Repeat(lib.PickStr(t, []string{" ", " ", "\u00e9"}, "padRune"), target-col))
					// what starts at that column: a comment or a (triple-quoted) string whose body looks like a comment
					op := []string{"'''", `"""`, `"`, "'"}
					for _, d := range []string{l.SingleLineCommentStart(), l.MultilineCommentStart()} {
						if d != "" {
							op = append(op, d)
						}
					}
					o := lib.PickStr(t, op, "padOpener")
					sb.WriteString(o + " text " + l.SingleLineCommentStart() + " more ")
					if o == l.MultilineCommentStart() {
						sb.WriteString(l.MultilineCommentEnd())
					} else if o != l.SingleLineCommentStart() && lib.IntN(t, 0, 3, "padClose") > 0 {
						sb.WriteString(o)
					}
				}
			}
		case 0, 1: // code run
			for j := 0; j < lib.IntN(t, 1, 5, "ncode"); j++ {
				sb.WriteString(lib.PickStr(t, words, "code"))
				if lib.Bool(t, "blank") {
					sb.WriteString(" ")
				}
			}
		case 2: // string literal, terminated
			q := lib.PickStr(t, []string{"\"", "'", "`"}, "quote")
			sb.WriteString(q)
			for j := 0; j < lib.IntN(t, 0, 4, "nstr"); j++ {
				sb.WriteString(lib.PickStr(t, []string{"a", " ", "//", "/*", "*/", "#", "--", "\\\\", "\\" + q, "<!--", "%{", ";"}, "strpart"))
			}
			sb.WriteString(q)
		case 3: // single line comment
			if st := l.SingleLineCommentStart(); st != "" {
				sb.WriteString(st)
				sb.WriteString(lib.PickStr(t, []string{"", " comment", " Copyright 2020 \"quoted\"", "é 日本", st, " /* not multi */"}, "sltext"))
				sb.WriteString(lib.PickStr(t, []string{"\n", "\n", "\r\n", ""}, "slEnd"))
			}
		case 4: // multi line comment
			if st := l.MultilineCommentStart(); st != "" {
				sb.WriteString(st)
				for j := 0; j < lib.IntN(t, 0, 4, "nml"); j++ {
					sb.WriteString(lib.PickStr(t, append(append([]string{"", "a", "\n", " text ", "\"", "'", "*", "-", "\n\n", " é "}, aliases...), foreign...), "mlpart"))
				}
				sb.WriteString(l.MultilineCommentEnd())
			}
		case 5:
			sb.WriteString(lib.PickStr(t, []string{"\n", "\n", "\r\n", "\r\n", "\r"}, "lineBreak"))
		case 6: // adjacent lexemes without separator are the interesting case
		}
	}
	return &c18Case{Lang: li, Src: []byte(sb.String())}
}

// The enumeration runs tens of millions of parses, so Parse is called directly there; a watchdog aborts the
// process when one case does not finish within 20 s, after recording it as the case in flight (the driver adopts it
// and confirms it through the budgeted replay path).
var (
	c18Tick    int64
	c18Cur     atomic.Value
	c18DogOnce sync.Once
)

func c18Watchdog() {
	c18DogOnce.Do(func() {
		go func() {
			last, same := int64(-1), 0
			for {
				time.Sleep(2 * time.Second)
				cur := atomic.LoadInt64(&c18Tick)
				if cur == last {
					same++
				} else {
					last, same = cur, 0
				}
				if same >= 10 {
					if c, ok := c18Cur.Load().(*c18Case); ok && c != nil {
						lib.WriteCurrent("C18", "small-scope", c, "Parse did not return within 20 s")
						os.Exit(3)
					}
				}
			}
		}()
	})
}

func c18EnumCheck(ci interface{}) lib.Outcome {
	c := ci.(*c18Case)
	if os.Getenv("VERIF_MODE") == "replay" {
		return c18Check(ci)
	}
	c18Watchdog()
	c18Cur.Store(c)
	atomic.AddInt64(&c18Tick, 1)
	c18Direct = true
	o := c18Check(ci)
	c18Direct = false
	atomic.AddInt64(&c18Tick, 1)
	o.FP = ""
	o.Sample = nil
	return o
}

var c18Direct bool

func TestVerif_C18_Enum(t *testing.T) {
	lib.Run(t, lib.Spec{ID: "C18", Part: "small-scope",
		Rule: "exhaustive: all strings of up to 5 (quick) / 8 (thorough) atoms over a delimiter-rich alphabet of 8 atoms (delimiters, their proper prefixes, quotes, backslash, newline, a letter, a blank) for 19 style/language configurations, plus every one of the languages at up to 4 (quick) / 5 (thorough) atoms over the delimiters of its own tables and over those delimiters next to their look-alike runes; oracle: Parse == reference lexer (comments, text, 1-based lines), no panic, returns within the budget; ChunkIterator delivers every comment once, in order, split exactly where start lines are more than one apart; non-trivial = the reference finds a comment or the source has a quote",
		New:  func() interface{} { return &c18Case{} }, Enum: c18Enum, Exhaustive: true,
		Check: c18EnumCheck})
}

func TestVerif_C18_Programs(t *testing.T) {
	lib.Run(t, lib.Spec{ID: "C18", Part: "programs",
		Rule: "programs of 1-30 lexemes from a grammar (code runs, terminated strings containing comment delimiters and escapes, single-line and multi-line comments with quotes / non-ASCII text, newlines; lexemes with and without separators) for a drawn language out of all; same oracle; non-trivial as above; distinct = distinct (language, source)",
		New:  func() interface{} { return &c18Case{} }, Gen: c18Gen, Check: c18Check})
}
