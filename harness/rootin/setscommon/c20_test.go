//go:build verif

package sets

// C20 (StringSet / IntSet; element type and constructors come from the per-package adapter file): the set behaves as a finite mathematical set under every
// operation sequence and never modifies or aliases its operands.
// Oracle: reference model map[string]bool per pool slot, compared after every step.

import (
	"encoding/json"
	"fmt"
	"os"
	"strings"
	"testing"

	"pgregory.net/rapid"
	"verif/lib"
)

type ssOp struct {
	Kind  string   `json:"k"`
	Dst   int      `json:"d"`
	A     int      `json:"a"`
	B     int      `json:"b"`
	Elems []ssE `json:"e,omitempty"`
}

type ssCase struct {
	Ops []ssOp `json:"ops"`
	// Every > 1: the per-step invariant (every pool set equals its model) is evaluated only after every Every-th
	// operation and at the end. Observing (Sorted, String ...) after each single mutation would reset anything a set
	// memoises between observations, so sparse observation is a domain of its own.
	Every int `json:"every,omitempty"`
}

const ssSlots = 4 // index ssSlots denotes the nil set


var ssKinds = []string{"new", "insert", "delete", "union", "intersect", "difference", "unique", "copy",
	"contains", "len", "equal", "disjoint", "elements", "string"}

func ssGen(t *rapid.T) interface{} {
	n := lib.IntN(t, 1, 40, "nops")
	c := &ssCase{}
	if lib.IntN(t, 0, 2, "sparse") == 0 {
		c.Every = lib.IntN(t, 2, 7, "every")
	}
	for i := 0; i < n; i++ {
		op := ssOp{Kind: lib.PickStr(t, ssKinds, "kind"), Dst: lib.IntN(t, 0, ssSlots-1, "dst"),
			A: lib.IntN(t, 0, ssSlots, "a"), B: lib.IntN(t, 0, ssSlots, "b")}
		switch op.Kind {
		case "new", "insert", "delete", "contains":
			k := lib.IntN(t, 0, 4, "nelems")
			for j := 0; j < k; j++ {
				op.Elems = append(op.Elems, ssUniverse[lib.IntN(t, 0, len(ssUniverse)-1, "elem")])
			}
		}
		c.Ops = append(c.Ops, op)
	}
	return c
}

type ssModel map[ssE]bool

func ssCopyModel(m ssModel) ssModel {
	out := ssModel{}
	for k := range m {
		out[k] = true
	}
	return out
}

func ssSortedModel(m ssModel) []ssE {
	out := []ssE{}
	for k := range m {
		out = append(out, k)
	}
	ssSort(out)
	return out
}

// ssAgree compares one implementation set with its model.
func ssAgree(s *ssSet, m ssModel) string {
	if (s == nil) != (m == nil) {
		return fmt.Sprintf("nil-ness differs: impl nil=%v model nil=%v", s == nil, m == nil)
	}
	if s == nil {
		return ""
	}
	want := ssSortedModel(m)
	got := s.Sorted()
	if fmt.Sprint(got) != fmt.Sprint(want) || len(got) != len(want) {
		return fmt.Sprintf("Sorted() = %v, model %v", got, want)
	}
	if s.Len() != len(m) {
		return fmt.Sprintf("Len() = %d, model %d", s.Len(), len(m))
	}
	if s.Empty() != (len(m) == 0) {
		return fmt.Sprintf("Empty() = %v, model has %d elements", s.Empty(), len(m))
	}
	for _, e := range ssUniverse {
		if s.Contains(e) != m[e] {
			return fmt.Sprintf("Contains(%v) = %v, model %v", e, s.Contains(e), m[e])
		}
	}
	if s.Contains(ssSentinel) {
		return "contains the aliasing sentinel"
	}
	return ""
}

func ssCheck(ci interface{}) lib.Outcome {
	c := ci.(*ssCase)
	pool := make([]*ssSet, ssSlots+1)
	model := make([]ssModel, ssSlots+1)
	for i := 0; i < ssSlots; i++ {
		pool[i] = ssNew()
		model[i] = ssModel{}
	}
	mutations, binops, nilArgs, selfArgs := 0, 0, 0, 0
	fail := func(i int, op ssOp, msg string) lib.Outcome {
		return lib.Outcome{Violation: fmt.Sprintf("step %d %s(dst=%d,a=%d,b=%d,%v): %s", i, op.Kind, op.Dst, op.A, op.B, op.Elems, msg)}
	}
	for i, op := range c.Ops {
		if op.Dst < 0 || op.Dst >= ssSlots || op.A < 0 || op.A > ssSlots || op.B < 0 || op.B > ssSlots {
			return lib.Outcome{Skip: "malformed"}
		}
		a, b := pool[op.A], pool[op.B]
		ma, mb := model[op.A], model[op.B]
		switch op.Kind {
		case "new":
			pool[op.Dst] = ssNew(op.Elems...)
			m := ssModel{}
			for _, e := range op.Elems {
				m[e] = true
			}
			model[op.Dst] = m
		case "insert":
			if a == nil {
				continue
			}
			a.Insert(op.Elems...)
			for _, e := range op.Elems {
				ma[e] = true
			}
			mutations++
		case "delete":
			if a == nil {
				continue
			}
			a.Delete(op.Elems...)
			for _, e := range op.Elems {
				delete(ma, e)
			}
			mutations++
		case "union", "intersect", "difference", "unique":
			if a == nil {
				continue
			}
			var r *ssSet
			want := ssModel{}
			switch op.Kind {
			case "union":
				r = a.Union(b)
				for k := range ma {
					want[k] = true
				}
				for k := range mb {
					want[k] = true
				}
			case "intersect":
				r = a.Intersect(b)
				for k := range ma {
					if mb[k] {
						want[k] = true
					}
				}
			case "difference":
				r = a.Difference(b)
				for k := range ma {
					if !mb[k] {
						want[k] = true
					}
				}
			case "unique":
				r = a.Unique(b)
				for k := range ma {
					if !mb[k] {
						want[k] = true
					}
				}
				for k := range mb {
					if !ma[k] {
						want[k] = true
					}
				}
			}
			binops++
			if b == nil {
				nilArgs++
			}
			if op.A == op.B {
				selfArgs++
			}
			if r == nil {
				return fail(i, op, "returned nil")
			}
			if msg := ssAgree(r, want); msg != "" {
				return fail(i, op, "result: "+msg)
			}
			// immediate aliasing probe: a result must be newly allocated
			r.Insert(ssSentinel)
			if a.Contains(ssSentinel) || (b != nil && b.Contains(ssSentinel)) {
				return fail(i, op, "result shares storage with an operand")
			}
			r.Delete(ssSentinel)
			pool[op.Dst] = r
			model[op.Dst] = want
		case "copy":
			r := a.Copy() // defined for a nil receiver
			if r == nil {
				return fail(i, op, "Copy returned nil")
			}
			want := ssCopyModel(ma)
			if msg := ssAgree(r, want); msg != "" {
				return fail(i, op, "result: "+msg)
			}
			r.Insert(ssSentinel)
			if a != nil && a.Contains(ssSentinel) {
				return fail(i, op, "copy shares storage with the original")
			}
			r.Delete(ssSentinel)
			pool[op.Dst] = r
			model[op.Dst] = want
		case "contains":
			if a == nil {
				continue
			}
			for _, e := range op.Elems {
				if a.Contains(e) != ma[e] {
					return fail(i, op, fmt.Sprintf("Contains(%v) = %v", e, a.Contains(e)))
				}
			}
		case "len":
			if a == nil {
				continue
			}
			if a.Len() != len(ma) || a.Empty() != (len(ma) == 0) {
				return fail(i, op, fmt.Sprintf("Len=%d Empty=%v model %d", a.Len(), a.Empty(), len(ma)))
			}
		case "equal":
			want := false
			if ma == nil || mb == nil {
				want = ma == nil && mb == nil
			} else {
				want = fmt.Sprint(ssSortedModel(ma)) == fmt.Sprint(ssSortedModel(mb)) && len(ma) == len(mb)
			}
			if got := a.Equal(b); got != want {
				return fail(i, op, fmt.Sprintf("Equal = %v, model %v", got, want))
			}
		case "disjoint":
			if a == nil {
				continue
			}
			want := true
			for k := range ma {
				if mb[k] {
					want = false
				}
			}
			if got := a.Disjoint(b); got != want {
				return fail(i, op, fmt.Sprintf("Disjoint = %v, model %v", got, want))
			}
		case "elements":
			if a == nil {
				continue
			}
			el := a.Elements()
			if el == nil {
				return fail(i, op, "Elements returned nil")
			}
			ssSort(el)
			if fmt.Sprint(el) != fmt.Sprint(ssSortedModel(ma)) || len(el) != len(ma) {
				return fail(i, op, fmt.Sprintf("Elements = %v, model %v", el, ssSortedModel(ma)))
			}
		case "string":
			if a == nil {
				continue
			}
			var q []string
			for _, e := range ssSortedModel(ma) {
				q = append(q, ssQuote(e))
			}
			want := "{" + strings.Join(q, ", ") + "}"
			if got := a.String(); got != want {
				return fail(i, op, fmt.Sprintf("String = %s, want %s", got, want))
			}
		default:
			return lib.Outcome{Skip: "malformed"}
		}
		// invariant: every pool set equals its model (detects operand mutation and late aliasing)
		if c.Every > 1 && (i+1)%c.Every != 0 && i != len(c.Ops)-1 {
			continue
		}
		for k := 0; k < ssSlots; k++ {
			if msg := ssAgree(pool[k], model[k]); msg != "" {
				return fail(i, op, fmt.Sprintf("afterwards slot %d: %s", k, msg))
			}
		}
	}
	o := lib.Outcome{Nontrivial: binops > 0 && mutations > 0}
	if o.Nontrivial {
		b, _ := json.Marshal(c)
		o.FP = string(b)
	}
	if nilArgs > 0 {
		o.Classes = append(o.Classes, "nil-argument")
	}
	if selfArgs > 0 {
		o.Classes = append(o.Classes, "self-argument")
	}
	if binops > 0 {
		o.Classes = append(o.Classes, "has-binary-op")
	}
	if c.Every > 1 {
		o.Classes = append(o.Classes, "sparse-observation")
	}
	return o
}

func ssSubset(mask int, u []ssE) []ssE {
	var out []ssE
	for i, e := range u {
		if mask&(1<<uint(i)) != 0 {
			out = append(out, e)
		}
	}
	return out
}

// ssEnumPairs: all pairs of subsets of a 4-element universe (and the nil argument) x all binary operations and queries.
func ssEnumPairs(yield func(interface{}) bool) {
	u := ssUniverse[len(ssUniverse)-4:]
	for ma := 0; ma < 16; ma++ {
		for mb := 0; mb <= 16; mb++ { // 16 = nil argument
			for _, k := range []string{"union", "intersect", "difference", "unique", "equal", "disjoint"} {
				ops := []ssOp{{Kind: "new", Dst: 0, Elems: ssSubset(ma, u)}}
				bIdx := 1
				if mb == 16 {
					bIdx = ssSlots
				} else {
					ops = append(ops, ssOp{Kind: "new", Dst: 1, Elems: ssSubset(mb, u)})
				}
				ops = append(ops, ssOp{Kind: "insert", A: 2, Elems: []ssE{ssUniverse[0]}}, ssOp{Kind: k, Dst: 2, A: 0, B: bIdx},
					ssOp{Kind: "insert", A: 2, Elems: []ssE{ssUniverse[1]}}, ssOp{Kind: "delete", A: 2, Elems: []ssE{ssUniverse[len(ssUniverse)-4]}})
				if !yield(&ssCase{Ops: ops}) {
					return
				}
			}
		}
	}
}

// ssEnumSeqs: all action sequences up to length L over a reduced action set (2 slots, universe {a,b}).
func ssEnumSeqs(yield func(interface{}) bool) {
	var acts []ssOp
	for s := 0; s < 2; s++ {
		for _, e := range ssUniverse[:2] {
			acts = append(acts, ssOp{Kind: "insert", A: s, Elems: []ssE{e}}, ssOp{Kind: "delete", A: s, Elems: []ssE{e}})
		}
		acts = append(acts, ssOp{Kind: "copy", Dst: 1 - s, A: s})
		for _, k := range []string{"union", "intersect", "difference", "unique"} {
			for d := 0; d < 2; d++ {
				for _, b := range []int{0, 1, ssSlots} {
					acts = append(acts, ssOp{Kind: k, Dst: d, A: s, B: b})
				}
			}
		}
	}
	L := 3
	if lib.Tier() == "thorough" {
		L = 4
	}
	shard, nshards := lib.EnvInt("VERIF_SHARD", 0), lib.EnvInt("VERIF_NSHARDS", 1)
	idx := 0
	var rec func(prefix []ssOp) bool
	rec = func(prefix []ssOp) bool {
		if len(prefix) > 0 {
			idx++
			if idx%nshards == shard {
				ops := append([]ssOp(nil), prefix...)
				if !yield(&ssCase{Ops: ops}) {
					return false
				}
			}
		}
		if len(prefix) == L {
			return true
		}
		for _, a := range acts {
			if !rec(append(prefix, a)) {
				return false
			}
		}
		return true
	}
	rec(nil)
}

const ssRule = "operation sequences (1-40 ops over a pool of 4 sets + nil, universe of 9 elements) interpreted against a map model; non-trivial = contains a mutation and a binary operation; distinct = distinct op sequence"

func ssEnumCheck(c interface{}) lib.Outcome {
	o := ssCheck(c)
	o.FP = "" // enumerated cases are distinct by construction
	return o
}

func TestVerif_C20_SetRandom(t *testing.T) {
	lib.Run(t, lib.Spec{ID: "C20", Part: ssPrefix + "-random", Rule: ssRule,
		New: func() interface{} { return &ssCase{} }, Gen: ssGen, Check: ssCheck})
}

func TestVerif_C20_SetPairs(t *testing.T) {
	lib.Run(t, lib.Spec{ID: "C20", Part: ssPrefix + "-pairs", Rule: "all 16x17 pairs of subsets of a 4-element universe (incl. nil argument) x 6 binary operations, followed by mutations of the result",
		New: func() interface{} { return &ssCase{} }, Enum: ssEnumPairs, Check: ssEnumCheck, Exhaustive: true})
}

func TestVerif_C20_SetSeqs(t *testing.T) {
	lib.Run(t, lib.Spec{ID: "C20", Part: ssPrefix + "-seqs", Rule: "all action sequences up to length 3 (quick) / 4 (thorough) over 60 actions on 2 slots and universe {a,b}",
		New: func() interface{} { return &ssCase{} }, Enum: ssEnumSeqs, Check: ssEnumCheck, Exhaustive: true})
}

var _ = os.Getenv
