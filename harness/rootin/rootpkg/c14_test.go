//go:build verif

package licenseclassifier_test

// C14 (License part): concurrent MultipleMatch / NearestMatch on one licenseclassifier.License built from a
// precomputed archive are race free (binary built with -race) and return what the same calls return sequentially.

import (
	"fmt"
	"strings"
	"sync"
	"testing"
	"time"

	lc "github.com/google/licenseclassifier"
	"pgregory.net/rapid"
	"verif/lib"
)

type c14LOp struct {
	Kind  string `json:"k"` // multi | multi-headers | nearest
	Query int    `json:"q"`
}

type c14LCase struct {
	Files   []int      `json:"files"`
	Queries []c15Query `json:"queries"`
	Ops     [][]c14LOp `json:"ops"`
}

func c14LGen(t *rapid.T) interface{} {
	c := &c14LCase{}
	n := lib.IntN(t, 5, 15, "nfiles")
	c.Files = lib.Ints(t, n, n, 0, 400, "files")
	nq := lib.IntN(t, 2, 5, "nqueries")
	for i := 0; i < nq; i++ {
		c.Queries = append(c.Queries, c15Query{Kind: lib.PickStr(t, []string{"file", "edited", "edited", "concat", "snippet"}, "kind"), File: lib.IntN(t, 0, 40, "file"), File2: lib.IntN(t, 0, 40, "file2"), Arg: lib.IntN(t, 0, 40, "arg"), Edits: lib.Ints(t, 1, 4, 0, 3000, "edits")})
	}
	g := lib.PickInt(t, []int{2, 4, 8, 16}, "goroutines")
	for i := 0; i < g; i++ {
		var ops []c14LOp
		for j := 0; j < lib.IntN(t, 1, 3, "nops"); j++ {
			ops = append(ops, c14LOp{Kind: lib.PickStr(t, []string{"multi", "multi-headers", "nearest"}, "kind"), Query: lib.IntN(t, 0, nq-1, "query")})
		}
		c.Ops = append(c.Ops, ops)
	}
	return c
}

func c14LCheck(ci interface{}) lib.Outcome {
	c := ci.(*c14LCase)
	if len(c.Files) == 0 || len(c.Files) > 40 || len(c.Queries) == 0 || len(c.Ops) == 0 || len(c.Ops) > 64 {
		return lib.Outcome{Skip: "malformed"}
	}
	files := c15Files(&c15Case{Files: c.Files})
	// keep texts small: go-diff has a 1 s wall-clock deadline and the race detector slows everything down
	var small []licFile
	for _, f := range files {
		if len(f.Content) <= 2500 {
			small = append(small, f)
		}
	}
	if len(small) < 2 {
		return lib.Outcome{Skip: "too-few-small-files"}
	}
	arch, err := buildArchive(small)
	if err != nil {
		return lib.Outcome{Violation: fmt.Sprintf("ArchiveLicenses failed: %v", err)}
	}
	ref, err := lc.New(0.8, lc.ArchiveBytes(arch))
	if err != nil {
		return lib.Outcome{Violation: fmt.Sprintf("New failed: %v", err)}
	}
	shared, _ := lc.New(0.8, lc.ArchiveBytes(arch))
	type want struct{ multi, multiH, nearest string }
	texts := make([]string, len(c.Queries))
	wants := make([]want, len(c.Queries))
	for i, q := range c.Queries {
		texts[i], _ = c15QueryText(q, small)
		if q.Kind == "snippet" {
			// far shorter than every known text: passes the common-word filter but has no candidate at all
			texts[i] = []string{"this software license", "terms of the work", "version code", "original rights software"}[q.Arg%4]
		}
		wants[i].multi = strings.Join(renderMatches(ref.MultipleMatch(texts[i], false)), " ")
		wants[i].multiH = strings.Join(renderMatches(ref.MultipleMatch(texts[i], true)), " ")
		if m := ref.NearestMatch(texts[i]); m != nil {
			wants[i].nearest = fmt.Sprintf("%s %b", m.Name, m.Confidence)
		}
	}
	var mu sync.Mutex
	firstBad := ""
	var wg sync.WaitGroup
	start := make(chan struct{})
	for g, ops := range c.Ops {
		wg.Add(1)
		go func(g int, ops []c14LOp) {
			defer wg.Done()
			<-start
			for step, op := range ops {
				i := ((op.Query % len(texts)) + len(texts)) % len(texts)
				got, exp := "", ""
				switch op.Kind {
				case "multi":
					got, exp = strings.Join(renderMatches(shared.MultipleMatch(texts[i], false)), " "), wants[i].multi
				case "multi-headers":
					got, exp = strings.Join(renderMatches(shared.MultipleMatch(texts[i], true)), " "), wants[i].multiH
				case "nearest":
					if m := shared.NearestMatch(texts[i]); m != nil {
						got = fmt.Sprintf("%s %b", m.Name, m.Confidence)
					}
					exp = wants[i].nearest
				}
				if got != exp {
					mu.Lock()
					if firstBad == "" {
						firstBad = fmt.Sprintf("goroutine %d call %d: concurrent %s(query %d) = %s, sequentially %s", g, step, op.Kind, i, got, exp)
					}
					mu.Unlock()
				}
			}
		}(g, ops)
	}
	close(start)
	if verdict, report := lib.WaitBatch(&wg, "c14LCheck.func", 30*time.Second, 10*time.Minute); verdict == "deadlock" {
		return lib.Outcome{Violation: "deadlock: the concurrent batch never finishes: " + report}
	} else if verdict == "slow" {
		return lib.Outcome{Skip: "batch-unfinished-after-10-minutes-but-not-provably-deadlocked"}
	}
	if firstBad != "" {
		return lib.Outcome{Violation: firstBad}
	}
	var names []string
	for _, f := range small {
		names = append(names, f.Name)
	}
	return lib.Outcome{Nontrivial: len(c.Ops) >= 2, FP: fmt.Sprintf("%v|%v|%v", names, c.Queries, c.Ops), Classes: []string{fmt.Sprintf("goroutines-%d", len(c.Ops))},
		Sample: map[string]interface{}{"archive": names, "goroutines": len(c.Ops), "ops": c.Ops}}
}

func TestVerif_C14_License(t *testing.T) {
	lib.Run(t, lib.Spec{ID: "C14", Part: "license",
		Rule: "License built from an in-process archive of 2-15 license files <= 2.5 KB; 2-16 goroutines released by one barrier, each issuing 1-3 of MultipleMatch (both header modes) / NearestMatch over 2-5 queries (files, edited files, concatenations, snippets too short to have any candidate); built with -race; results compared with a second License built from the same archive and queried sequentially; non-trivial = at least 2 goroutines",
		New:  func() interface{} { return &c14LCase{} }, Gen: c14LGen, Check: c14LCheck})
}
