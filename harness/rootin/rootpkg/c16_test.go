//go:build verif

package licenseclassifier_test

// C16: the v1 License classifier identifies every license of its own corpus (also re-cased, re-flowed, decorated)
// and MultipleMatch never returns a match below the classifier's threshold.

import (
	"fmt"
	"strings"
	"sync"
	"testing"

	lc "github.com/google/licenseclassifier"
	"pgregory.net/rapid"
	"verif/lib"
)

type c16Case struct {
	File    int `json:"file"`
	Variant int `json:"variant"`
}

var (
	c16Once sync.Once
	c16All  *lc.License
	c16Err  error
)

func c16Classifier() (*lc.License, error) {
	c16Once.Do(func() {
		arch, err := buildArchive(licenseFiles())
		if err != nil {
			c16Err = err
			return
		}
		c16All, c16Err = lc.New(lc.DefaultConfidenceThreshold, lc.ArchiveBytes(arch))
	})
	return c16All, c16Err
}

func c16Enum(yield func(interface{}) bool) {
	shard, nshards := lib.EnvInt("VERIF_SHARD", 0), lib.EnvInt("VERIF_NSHARDS", 1)
	files := licenseFiles()
	idx := 0
	for f := range files {
		for v := range variantNames {
			idx++
			if idx%nshards != shard {
				continue
			}
			if lib.Tier() != "thorough" && v != 0 && (f+v)%4 != 0 {
				continue // quick: every file as is, plus a rotating quarter of the variants
			}
			if !yield(&c16Case{File: f, Variant: v}) {
				return
			}
		}
	}
}

func c16Check(ci interface{}) lib.Outcome {
	c := ci.(*c16Case)
	cl, err := c16Classifier()
	if err != nil {
		return lib.Outcome{Violation: fmt.Sprintf("cannot build the classifier from licenses/: %v", err)}
	}
	files := licenseFiles()
	f := files[((c.File%len(files))+len(files))%len(files)]
	text := variant(f.Content, c.Variant)
	vn := variantNames[((c.Variant%len(variantNames))+len(variantNames))%len(variantNames)]
	m := cl.NearestMatch(text)
	if m == nil {
		return lib.Outcome{Violation: fmt.Sprintf("NearestMatch(%s, %s) returned nil", f.Name, vn)}
	}
	if m.Name != canonicalName(f.Name) && !sameNormalised(files, f, m.Name) {
		return lib.Outcome{Violation: fmt.Sprintf("NearestMatch(%s, %s) = {%s %v}, want %s", f.Name, vn, m.Name, m.Confidence, canonicalName(f.Name))}
	}
	if !(m.Confidence >= lc.DefaultConfidenceThreshold) {
		return lib.Outcome{Violation: fmt.Sprintf("NearestMatch(%s, %s) = {%s %v}: confidence below the default threshold", f.Name, vn, m.Name, m.Confidence)}
	}
	return lib.Outcome{Nontrivial: true, Classes: []string{"variant-" + vn}, Sample: map[string]interface{}{"file": f.Name, "variant": vn, "result": fmt.Sprintf("{%s %v}", m.Name, m.Confidence)}}
}

// ---- threshold bound of MultipleMatch

type c16ThrCase struct {
	Thr   float64  `json:"thr"`
	Files []int    `json:"files"`
	Query c15Query `json:"query"`
	// Later > 0: the classifier is created with Thr and its exported Threshold field is then set to Later (the field
	// is public and the repository's own tests adjust it on a live classifier); the bound is Later from then on.
	Later float64 `json:"later,omitempty"`
}

func c16ThrGen(t *rapid.T) interface{} {
	n := lib.IntN(t, 2, 10, "nfiles")
	later := 0.0
	if lib.IntN(t, 0, 2, "thresholdChangedLater") == 0 {
		later = float64(lib.IntN(t, 50, 100, "laterPct")) / 100
	}
	return &c16ThrCase{Later: later, Thr: float64(lib.IntN(t, 50, 100, "thrPct")) / 100, Files: lib.Ints(t, n, n, 0, 400, "files"),
		Query: c15Query{Kind: lib.PickStr(t, []string{"edited", "inserted", "inserted", "concat", "variant", "arbitrary", "twice", "twice"}, "kind"), File: lib.IntN(t, 0, 40, "file"), File2: lib.IntN(t, 0, 40, "file2"),
			Arg: lib.IntN(t, 0, 100, "arg"), Edits: lib.Ints(t, 1, 40, 0, 3000, "edits")}}
}

func c16ThrCheck(ci interface{}) lib.Outcome {
	c := ci.(*c16ThrCase)
	if !(c.Thr > 0 && c.Thr <= 1) || len(c.Files) == 0 || len(c.Files) > 40 {
		return lib.Outcome{Skip: "malformed"}
	}
	files := c15Files(&c15Case{Files: c.Files})
	arch, err := buildArchive(files)
	if err != nil {
		return lib.Outcome{Violation: fmt.Sprintf("ArchiveLicenses failed: %v", err)}
	}
	cl, err := lc.New(c.Thr, lc.ArchiveBytes(arch))
	if err != nil {
		return lib.Outcome{Violation: fmt.Sprintf("New failed: %v", err)}
	}
	text, qdesc := c15QueryText(c.Query, files)
	n := 0
	bound := c.Thr
	if c.Later > 0 && c.Later <= 1 {
		cl.Threshold = c.Later
		bound = c.Later
		qdesc += fmt.Sprintf(" (classifier created with threshold %v, Threshold field set to %v afterwards)", c.Thr, c.Later)
	}
	for _, hdr := range []bool{false, true} {
		for _, m := range cl.MultipleMatch(text, hdr) {
			n++
			if m.Confidence < bound {
				return lib.Outcome{Violation: fmt.Sprintf("threshold %v, query %s: MultipleMatch returned {%s %v}, below the threshold", bound, qdesc, m.Name, m.Confidence)}
			}
		}
	}
	var names []string
	for _, f := range files {
		names = append(names, f.Name)
	}
	return lib.Outcome{Nontrivial: n > 0, FP: fmt.Sprintf("%v|%s|%v|%v", c.Thr, qdesc, names, c.Query.Edits),
		Sample: map[string]interface{}{"threshold": c.Thr, "archive": strings.Join(names, ","), "query": qdesc, "matches": n}}
}

func TestVerif_C16_OwnCorpus(t *testing.T) {
	lib.Run(t, lib.Spec{ID: "C16", Part: "own-corpus",
		Rule: "every file under licenses/ x presentation variants {as is, upper, lower, whitespace re-flow (line joins/splits, tabs, CRLF), everything on a single line, re-wrapped at 60 / 100 columns, line decoration //, #,  * , ;;, --} against one classifier built in process from all files at the default threshold; quick: every file as is plus a rotating quarter of the variants, thorough: all; oracle: NearestMatch returns the canonical name (file name minus .txt/.header) with confidence >= 0.8",
		New:  func() interface{} { return &c16Case{} }, Enum: c16Enum, Check: c16Check, Exhaustive: true})
}

func TestVerif_C16_Threshold(t *testing.T) {
	lib.Run(t, lib.Spec{ID: "C16", Part: "threshold-bound",
		Rule: "archives of 2-10 small license files, thresholds 0.50-1.00, queries = edited / filler-inserted / concatenated / re-presented license texts, the same license twice with different amounts of change, and arbitrary license-word text; in a third of the cases the exported Threshold field is changed after construction; oracle: no MultipleMatch result (either header mode) has Confidence < Threshold (the current one); non-trivial = at least one match returned",
		New:  func() interface{} { return &c16ThrCase{} }, Gen: c16ThrGen, Check: c16ThrCheck})
}
