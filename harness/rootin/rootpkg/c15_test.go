//go:build verif

package licenseclassifier_test

// C15: the v1 license archive round-trips: ArchiveLicenses -> New(ArchiveBytes) yields exactly those licenses and
// gives the same NearestMatch / MultipleMatch results as a classifier built directly from the normalised texts.

import (
	"fmt"
	"strings"
	"testing"

	lc "github.com/google/licenseclassifier"
	"github.com/google/licenseclassifier/stringclassifier"
	"pgregory.net/rapid"
	"verif/lib"
)

type c15Synth struct {
	Name  string `json:"name"`
	Words []int  `json:"words"`
	// Blank > 0: a file without a single word after normalisation (1 empty, 2 punctuation only, 3 a copyright notice
	// and "All rights reserved." only): legal members of "any set of license files"
	Blank int `json:"blank,omitempty"`
}

var c15DirSets = [][]string{nil, {"vendor/acme/"}, {"/opt/licenses/"}, {"./", "third_party/x.txt/", ""}, {"a/b/c/d/", "../up/"}}

type c15Query struct {
	Kind  string `json:"k"` // file | edited | variant | concat | arbitrary
	File  int    `json:"f"`
	File2 int    `json:"f2"`
	Arg   int    `json:"a"`
	Edits []int  `json:"e,omitempty"`
}

type c15Case struct {
	Thr     float64    `json:"thr"`
	Files   []int      `json:"files"` // indices into the small license files (modulo)
	Synth   []c15Synth `json:"synth"`
	Queries []c15Query `json:"queries"`
	// Decoy: before the archive under test is loaded, another archive is built and loaded in the same process that has
	// the same file names but different contents (a history: results must not depend on what was loaded earlier).
	Decoy bool `json:"decoy,omitempty"`
	// Dirs > 0: the files are handed to ArchiveLicenses as paths with a directory part (c15DirSets[Dirs]).
	Dirs int `json:"dirs,omitempty"`
}

var c15Vocab = strings.Fields("this software license grants rights to use copy modify and distribute the work under terms of version code original provided without warranty liability holder notice conditions following redistribution source binary forms permitted")

func smallLicenseFiles() []licFile {
	var out []licFile
	for _, f := range licenseFiles() {
		if len(f.Content) <= 8*1024 {
			out = append(out, f)
		}
	}
	return out
}

func c15Gen(t *rapid.T) interface{} {
	c := &c15Case{Thr: lib.PickFloat(t, []float64{0.5, 0.8, 0.8, 0.9, 1.0}, "thr"), Decoy: lib.IntN(t, 0, 2, "decoy") == 0}
	if lib.IntN(t, 0, 3, "withDirs") == 0 {
		c.Dirs = lib.IntN(t, 1, len(c15DirSets)-1, "dirs")
	}
	n := lib.IntN(t, 1, 12, "nfiles")
	c.Files = lib.Ints(t, n, n, 0, 400, "files")
	ns := lib.IntN(t, 0, 2, "nsynth")
	for i := 0; i < ns; i++ {
		name := fmt.Sprintf("Synth-%d.txt", i)
		switch lib.IntN(t, 0, 5, "nameKind") {
		case 0:
			name = fmt.Sprintf("Synth-%d.header.txt", i)
		case 1: // long descriptive file names (archive formats have name length limits)
			name = fmt.Sprintf("Synth-%d-%s.txt", i, strings.Repeat("long-descriptive-name-", lib.IntN(t, 3, 8, "nameLen")))
		case 2: // non-ASCII file name
			name = fmt.Sprintf("Synth-%d-licença-日本.txt", i)
		}
		sy := c15Synth{Name: name, Words: lib.Ints(t, 30, 200, 0, len(c15Vocab)-1, "words")}
		if lib.IntN(t, 0, 5, "blankFile") == 0 {
			sy.Blank = lib.IntN(t, 1, 3, "blankKind")
		}
		c.Synth = append(c.Synth, sy)
	}
	nq := lib.IntN(t, 2, 6, "nqueries")
	for i := 0; i < nq; i++ {
		c.Queries = append(c.Queries, c15Query{Kind: lib.PickStr(t, []string{"file", "edited", "edited", "variant", "concat", "arbitrary", "inserted", "typos", "typos"}, "kind"),
			File: lib.IntN(t, 0, 40, "file"), File2: lib.IntN(t, 0, 40, "file2"), Arg: lib.IntN(t, 0, 100, "arg"), Edits: lib.Ints(t, 1, 8, 0, 3000, "edits")})
	}
	return c
}

func c15Files(c *c15Case) []licFile {
	small := smallLicenseFiles()
	seen := map[string]bool{}
	var files []licFile
	for _, i := range c.Files {
		f := small[((i%len(small))+len(small))%len(small)]
		if !seen[f.Name] {
			seen[f.Name] = true
			files = append(files, f)
		}
	}
	for _, s := range c.Synth {
		if seen[s.Name] || !strings.HasSuffix(s.Name, ".txt") || strings.ContainsAny(s.Name, "/\\") {
			continue
		}
		seen[s.Name] = true
		if s.Blank > 0 {
			files = append(files, licFile{s.Name, []string{"", "--- *** ---\n...\n", "Copyright 2017 Example Corp\nAll rights reserved.\n"}[(s.Blank-1)%3]})
			continue
		}
		var w []string
		for i, k := range s.Words {
			w = append(w, c15Vocab[((k%len(c15Vocab))+len(c15Vocab))%len(c15Vocab)])
			if (i+1)%9 == 0 {
				w = append(w, "\n")
			}
		}
		files = append(files, licFile{s.Name, strings.Join(w, " ") + fmt.Sprintf(" synthetic marker %s\n", strings.Replace(s.Name, ".", " ", -1))})
	}
	return files
}

func c15QueryText(q c15Query, files []licFile) (string, string) {
	f := files[((q.File%len(files))+len(files))%len(files)]
	g := files[((q.File2%len(files))+len(files))%len(files)]
	switch q.Kind {
	case "file":
		return f.Content, "file " + f.Name
	case "edited":
		return "some preface text\n" + editWords(f.Content, q.Edits) + "\nsome trailing text\n", fmt.Sprintf("edited(%d) %s", len(q.Edits), f.Name)
	case "variant":
		return variant(f.Content, q.Arg), fmt.Sprintf("%s of %s", variantNames[q.Arg%len(variantNames)], f.Name)
	case "twice":
		// the same license two times, neither copy verbatim: the first with one word changed, the second with filler
		// words inserted (every word of the license still there, the edit distance large)
		second, _ := c15QueryText(c15Query{Kind: "inserted", File: q.File, Arg: 6 + q.Arg%9, Edits: append(append([]int{}, q.Edits...), q.Arg*31, q.Arg*57+11, q.Arg*91+29)}, files)
		return "first copy\n" + editWords(f.Content, q.Edits[:1]) + "\nsecond copy\n" + second + "\nthe end\n", fmt.Sprintf("%s twice (one word changed / filler inserted)", f.Name)
	case "inserted":
		// filler words inserted inside the text: every word of the license is still there (token coverage stays
		// complete) while the edit distance grows, so the confidence sinks below a high threshold
		w := strings.Fields(f.Content)
		n := 1 + q.Arg%12
		var out []string
		for i, x := range w {
			out = append(out, x)
			for _, e := range q.Edits {
				if len(w) > 0 && i == e%len(w) {
					for k := 0; k < n; k++ {
						out = append(out, "qqfiller")
					}
				}
			}
			if (i+1)%11 == 0 {
				out = append(out, "\n")
			}
		}
		return "preface\n" + strings.Join(out, " ") + "\ntrailer\n", fmt.Sprintf("%s with %d x %d filler words inserted", f.Name, len(q.Edits), n)
	case "typos":
		// one letter changed in every k-th word: almost every run of three words is broken (little is left for the
		// hash-based pre-selection) while the text stays close character by character
		k := 3 + q.Arg%6
		w := strings.Fields(f.Content)
		for i := range w {
			if i%k == k-1 && len(w[i]) >= 3 {
				b := []byte(w[i])
				b[len(b)/2] = 'q'
				w[i] = string(b)
			}
			if (i+1)%11 == 0 {
				w[i] += "\n"
			}
		}
		return "preface\n" + strings.Join(w, " ") + "\ntrailer\n", fmt.Sprintf("%s with a typo in every %d. word", f.Name, k)
	case "concat":
		return f.Content + "\n\nunrelated words in between\n\n" + editWords(g.Content, q.Edits[:1]), "concat " + f.Name + " + " + g.Name
	}
	var w []string
	for _, e := range q.Edits {
		w = append(w, c15Vocab[e%len(c15Vocab)], "license", "software")
	}
	return strings.Join(w, " "), "arbitrary text"
}

func c15Check(ci interface{}) lib.Outcome {
	c := ci.(*c15Case)
	if !(c.Thr > 0 && c.Thr <= 1) || len(c.Files) > 40 || len(c.Queries) > 20 {
		return lib.Outcome{Skip: "malformed"}
	}
	files := c15Files(c)
	if len(files) == 0 {
		return lib.Outcome{Skip: "no-files"}
	}
	var names []string
	known := map[string]bool{}
	for _, f := range files {
		names = append(names, f.Name)
		known[canonicalName(f.Name)] = true
	}
	desc := fmt.Sprintf("archive of %v at threshold %v", names, c.Thr)
	if c.Decoy {
		desc += " (after loading an archive with the same file names and other contents)"
		var decoy []licFile
		for i, f := range files {
			w := strings.Fields(f.Content)
			for l, r := 0, len(w)-1; l < r; l, r = l+1, r-1 {
				w[l], w[r] = w[r], w[l]
			}
			if i%2 == 0 {
				// same words in reverse order: same file name, same length, other text
				decoy = append(decoy, licFile{f.Name, strings.Join(w, " ") + "\n"})
			} else {
				decoy = append(decoy, licFile{f.Name, fmt.Sprintf("decoy %d license software ", i) + strings.Join(w, " ")})
			}
		}
		if darch, err := buildArchive(decoy); err == nil {
			if d, err := lc.New(c.Thr, lc.ArchiveBytes(darch)); err == nil {
				d.MultipleMatch(decoy[0].Content, true)
			}
		}
	}
	var dirs []string
	if c.Dirs > 0 {
		dirs = c15DirSets[c.Dirs%len(c15DirSets)]
		desc += fmt.Sprintf(" (files given as paths under %q)", dirs)
	}
	arch, err := buildArchiveDirs(files, dirs)
	if err != nil {
		return lib.Outcome{Violation: fmt.Sprintf("%s: ArchiveLicenses failed: %v", desc, err)}
	}
	a, err := lc.New(c.Thr, lc.ArchiveBytes(arch))
	if err != nil {
		return lib.Outcome{Violation: fmt.Sprintf("%s: New(ArchiveBytes) failed: %v", desc, err)}
	}
	b, err := referenceLicense(files, c.Thr)
	if err != nil {
		return lib.Outcome{Skip: "reference-construction-failed: " + err.Error()}
	}
	b2, err := referenceLicenseAddValue(files, c.Thr)
	if err != nil {
		return lib.Outcome{Skip: "reference-construction-failed: " + err.Error()}
	}
	// every archived file is found under its own name at confidence 1.0
	for _, f := range files {
		m := a.NearestMatch(f.Content)
		if m == nil {
			continue // text without any common license word: not classified at all (documented prefilter)
		}
		if len(strings.Fields(normalizeAll(lc.TrimExtraneousTrailingText(f.Content)))) == 0 {
			continue // a file without a single word after normalisation cannot be told apart from anything
		}
		if m.Confidence != 1.0 || !(m.Name == canonicalName(f.Name) || sameNormalised(files, f, m.Name)) {
			return lib.Outcome{Violation: fmt.Sprintf("%s: NearestMatch(contents of %s) = {%s %v}, want {%s 1}", desc, f.Name, m.Name, m.Confidence, canonicalName(f.Name))}
		}
	}
	edited := false
	for qi, q := range c.Queries {
		text, qdesc := c15QueryText(q, files)
		for _, hdr := range []bool{false, true} {
			ma, mb := a.MultipleMatch(text, hdr), b.MultipleMatch(text, hdr)
			ra, rb := renderMatches(ma), renderMatches(mb)
			if strings.Join(ra, " ") != strings.Join(rb, " ") {
				return lib.Outcome{Violation: fmt.Sprintf("%s, query %d (%s), headers=%v: MultipleMatch differs\nfrom archive:   %v\nbuilt directly: %v", desc, qi, qdesc, hdr, ra, rb)}
			}
			if oa, ob := renderOrdered(ma), renderOrdered(mb); oa != ob {
				return lib.Outcome{Violation: fmt.Sprintf("%s, query %d (%s), headers=%v: MultipleMatch returns the same matches in a different order\nfrom archive:   %s\nbuilt directly: %s", desc, qi, qdesc, hdr, oa, ob)}
			}
			if rb2 := renderMatches(b2.MultipleMatch(text, hdr)); strings.Join(ra, " ") != strings.Join(rb2, " ") {
				return lib.Outcome{Violation: fmt.Sprintf("%s, query %d (%s), headers=%v: MultipleMatch differs\nfrom archive:            %v\nbuilt through AddValue:  %v", desc, qi, qdesc, hdr, ra, rb2)}
			}
			for _, m := range ma {
				if !known[m.Name] {
					return lib.Outcome{Violation: fmt.Sprintf("%s, query %d (%s): MultipleMatch returned %q which is not in the archive", desc, qi, qdesc, m.Name)}
				}
			}
		}
		if len(text) > 9000 {
			// NearestMatch diffs the whole query against every similarly long license at character level; for long
			// queries such a diff can come near go-diff's 1 s wall-clock deadline on a busy machine (DESIGN 3.4)
			continue
		}
		na, nb := a.NearestMatch(text), b.NearestMatch(text)
		if (na == nil) != (nb == nil) {
			return lib.Outcome{Violation: fmt.Sprintf("%s, query %d (%s): NearestMatch nil-ness differs", desc, qi, qdesc)}
		}
		if na != nil {
			if na.Confidence != nb.Confidence {
				return lib.Outcome{Violation: fmt.Sprintf("%s, query %d (%s): NearestMatch confidence %v from the archive, %v built directly", desc, qi, qdesc, na.Confidence, nb.Confidence)}
			}
			if na.Name != nb.Name && !tiedAt(files, c.Thr, text, na.Name, nb.Name, na.Confidence) {
				return lib.Outcome{Violation: fmt.Sprintf("%s, query %d (%s): NearestMatch = %s from the archive, %s built directly (confidence %v, not a tie)", desc, qi, qdesc, na.Name, nb.Name, na.Confidence)}
			}
			if na.Name == nb.Name && (na.Offset != nb.Offset || na.Extent != nb.Extent) {
				return lib.Outcome{Violation: fmt.Sprintf("%s, query %d (%s): NearestMatch = {%s %v offset %d extent %d} from the archive, offset %d extent %d built directly", desc, qi, qdesc, na.Name, na.Confidence, na.Offset, na.Extent, nb.Offset, nb.Extent)}
			}
			if na.Name != "" && !known[na.Name] {
				return lib.Outcome{Violation: fmt.Sprintf("%s, query %d (%s): NearestMatch returned %q which is not in the archive", desc, qi, qdesc, na.Name)}
			}
		}
		if q.Kind == "edited" || q.Kind == "concat" || q.Kind == "inserted" || q.Kind == "typos" {
			edited = true
		}
	}
	classes := []string{}
	if len(c.Synth) > 0 {
		classes = append(classes, "with-synthetic-license")
	}
	if c.Decoy {
		classes = append(classes, "after-decoy-archive-with-same-names")
	}
	for _, f := range files {
		if strings.HasSuffix(f.Name, ".header.txt") {
			classes = append(classes, "with-header-file")
			break
		}
	}
	return lib.Outcome{Nontrivial: edited && len(files) > 1, FP: fmt.Sprintf("%s|%v", desc, c.Queries), Classes: classes,
		Sample: map[string]interface{}{"archive": names, "threshold": c.Thr, "queries": len(c.Queries)}}
}

// sameNormalised: another archived file has the same normalised text (then either name is a correct answer).
func sameNormalised(files []licFile, f licFile, name string) bool {
	want := normalizeAll(lc.TrimExtraneousTrailingText(f.Content))
	for _, g := range files {
		if canonicalName(g.Name) == name && normalizeAll(lc.TrimExtraneousTrailingText(g.Content)) == want {
			return true
		}
	}
	return false
}

// tiedAt shows that both names reach the same confidence on one-value classifiers (NearestMatch is undefined on ties).
func tiedAt(files []licFile, thr float64, text, n1, n2 string, conf float64) bool {
	for _, n := range []string{n1, n2} {
		ok := false
		for _, f := range files {
			if canonicalName(f.Name) != n {
				continue
			}
			one, err := referenceLicense([]licFile{f}, thr)
			if err != nil {
				continue
			}
			if m := one.NearestMatch(text); m != nil && m.Confidence == conf {
				ok = true
			}
		}
		if !ok {
			return false
		}
	}
	return true
}

// ---- every license file larger than the 8 KiB cap of the random part, once: archive = {that file + two small ones},
// queries = the file itself and the file with two words changed (a light fuzzy query: the diff of two nearly identical
// texts is fast, far from go-diff's deadline).

type c15BigCase struct {
	File int `json:"file"` // index into the big files
}

func bigLicenseFiles() []licFile {
	var out []licFile
	for _, f := range licenseFiles() {
		if len(f.Content) > 8*1024 {
			out = append(out, f)
		}
	}
	return out
}

// c15HugeSynthetic: a license text of n pseudo-random vocabulary words, larger than any shipped license (the archive
// entries of such a text exceed every size the shipped files exercise).
func c15HugeSynthetic(n int) licFile {
	var sb strings.Builder
	x := uint32(12345 + n)
	for i := 0; i < n; i++ {
		x = x*1664525 + 1013904223
		sb.WriteString(c15Vocab[int(x>>16)%len(c15Vocab)])
		if i%50 == 49 {
			fmt.Fprintf(&sb, " clause%d", i/50)
		}
		if (i+1)%12 == 0 {
			sb.WriteByte('\n')
		} else {
			sb.WriteByte(' ')
		}
	}
	return licFile{fmt.Sprintf("Huge-Synthetic-%d.txt", n), sb.String() + "\n"}
}

var c15HugeSizes = []int{9000, 20000, 45000}

func c15BigEnum(yield func(interface{}) bool) {
	shard, nshards := lib.EnvInt("VERIF_SHARD", 0), lib.EnvInt("VERIF_NSHARDS", 1)
	for k := range c15HugeSizes {
		if (k+3)%nshards != shard {
			continue
		}
		if k == 2 && lib.Tier() != "thorough" {
			continue
		}
		if !yield(&c15BigCase{File: -1 - k}) {
			return
		}
	}
	for i := range bigLicenseFiles() {
		if i%nshards != shard {
			continue
		}
		if lib.Tier() != "thorough" && i%3 != 0 && len(bigLicenseFiles()[i].Content) < 30000 {
			continue // quick: a third of them, and always the very large ones
		}
		if !yield(&c15BigCase{File: i}) {
			return
		}
	}
}

func c15BigCheck(ci interface{}) lib.Outcome {
	c := ci.(*c15BigCase)
	big := bigLicenseFiles()
	small := smallLicenseFiles()
	var f licFile
	if c.File < 0 {
		f = c15HugeSynthetic(c15HugeSizes[(-c.File-1)%len(c15HugeSizes)])
		c = &c15BigCase{File: -c.File}
	} else {
		f = big[((c.File%len(big))+len(big))%len(big)]
	}
	files := []licFile{small[c.File%len(small)], f, small[(c.File*7+3)%len(small)]}
	if files[0].Name == files[2].Name {
		files = files[:2]
	}
	desc := fmt.Sprintf("archive of %s (%d bytes) and two small files", f.Name, len(f.Content))
	arch, err := buildArchive(files)
	if err != nil {
		return lib.Outcome{Violation: fmt.Sprintf("%s: ArchiveLicenses failed: %v", desc, err)}
	}
	a, err := lc.New(0.8, lc.ArchiveBytes(arch))
	if err != nil {
		return lib.Outcome{Violation: fmt.Sprintf("%s: New(ArchiveBytes) failed: %v", desc, err)}
	}
	b, err := referenceLicense(files, 0.8)
	if err != nil {
		return lib.Outcome{Skip: "reference-construction-failed"}
	}
	ownMissed := false
	queries := []string{f.Content, "preface words\n" + editWords(f.Content, []int{101, 1777}) + "\ntrailing words\n"}
	for qi, text := range queries {
		ra, rb := renderMatches(a.MultipleMatch(text, true)), renderMatches(b.MultipleMatch(text, true))
		if strings.Join(ra, " ") != strings.Join(rb, " ") {
			return lib.Outcome{Violation: fmt.Sprintf("%s, query %d: MultipleMatch differs\nfrom archive:   %v\nbuilt directly: %v", desc, qi, ra, rb)}
		}
		if qi == 0 && len(ra) == 0 {
			// Not asserted: the statement compares the archive-loaded classifier with one built directly, it does not
			// promise that MultipleMatch finds a file's own text (License.MultipleMatch normalises the text and the
			// string classifier normalises it a second time; for BCL.txt the result no longer contains the known value
			// literally and the fuzzy path does not find it either, for both classifiers alike). Counted only.
			ownMissed = true
		}
	}
	var classes []string
	if ownMissed {
		classes = append(classes, "own-text-not-found-by-MultipleMatch(both-classifiers)")
	}
	return lib.Outcome{Nontrivial: true, Classes: classes, Sample: map[string]interface{}{"archive": desc}}
}

func TestVerif_C15_BigFiles(t *testing.T) {
	lib.Run(t, lib.Spec{ID: "C15", Part: "big-files",
		Rule: "every license file larger than 8 KiB (a third of them plus all above 30 KB in quick), each archived together with two small files; plus synthetic license texts of 9000 / 20000 (/ 45000 in thorough) words, beyond every shipped size; queries: the file itself and the file with two words changed; MultipleMatch from the archive-loaded classifier == classifier built directly with fresh search sets",
		New:  func() interface{} { return &c15BigCase{} }, Enum: c15BigEnum, Check: c15BigCheck, Exhaustive: true})
}

var _ = stringclassifier.DefaultConfidenceThreshold

func TestVerif_C15(t *testing.T) {
	lib.Run(t, lib.Spec{ID: "C15", Part: "archive-roundtrip",
		Rule: "archives of 1-12 license files (<= 8 KiB, drawn order) plus 0-2 synthetic licenses served through the swapped package variable ReadLicenseFile; in a quarter of the cases the files are given as paths with a directory part (relative, absolute, ./, ../); thresholds {0.5,0.8,0.9,1}; in a third of the cases a decoy archive with the same file names and other contents is built and loaded first; 2-6 queries: a file itself, edited (word deletions/substitutions) in context, presentation variants, concatenations, arbitrary license-word text; oracle: no error, every file found under its own name at 1.0, MultipleMatch lists (both header modes) and NearestMatch identical to a classifier built directly from the normalised texts with fresh search sets, no name outside the archive; non-trivial = more than one file and an edited / concatenated query",
		New:  func() interface{} { return &c15Case{} }, Gen: c15Gen, Check: c15Check})
}
