//go:build verif

package licenseclassifier

import "github.com/google/licenseclassifier/stringclassifier"

// VerifWrap builds a License around an existing string classifier (reference construction for C15).
func VerifWrap(c *stringclassifier.Classifier, threshold float64) *License {
	return &License{c: c, Threshold: threshold}
}
