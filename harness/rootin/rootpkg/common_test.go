//go:build verif

package licenseclassifier_test

// Shared helpers for the v1 License harnesses (C14 License part, C15, C16).

import (
	"bytes"
	"fmt"
	"io/ioutil"
	"log"
	"sort"
	"strings"
	"sync"

	lc "github.com/google/licenseclassifier"
	"github.com/google/licenseclassifier/licenses"
	"github.com/google/licenseclassifier/serializer"
	"github.com/google/licenseclassifier/stringclassifier"
	"github.com/google/licenseclassifier/stringclassifier/searchset"
)

func init() { log.SetOutput(ioutil.Discard) }

type licFile struct {
	Name    string // file name, e.g. MIT.txt or GPL-2.0.header.txt
	Content string
}

var (
	licOnce  sync.Once
	licFiles []licFile
)

// licenseFiles returns every *.txt below licenses/ (through the package's own embedded file system), sorted.
func licenseFiles() []licFile {
	licOnce.Do(func() {
		entries, err := licenses.ReadLicenseDir()
		if err != nil {
			panic(err)
		}
		var names []string
		for _, e := range entries {
			if !e.IsDir() && strings.HasSuffix(e.Name(), ".txt") {
				names = append(names, e.Name())
			}
		}
		sort.Strings(names)
		for _, n := range names {
			b, err := licenses.ReadLicenseFile(n)
			if err != nil {
				panic(err)
			}
			licFiles = append(licFiles, licFile{n, string(b)})
		}
		if len(licFiles) < 50 {
			panic(fmt.Sprintf("only %d license files found", len(licFiles)))
		}
	})
	return licFiles
}

func canonicalName(file string) string {
	return strings.TrimSuffix(strings.TrimSuffix(file, ".txt"), ".header")
}

func archiveKey(file string) string { return strings.TrimSuffix(file, ".txt") }

func normalizeAll(s string) string {
	for _, n := range lc.Normalizers {
		s = n(s)
	}
	return s
}

var swapMu sync.Mutex

// buildArchive serialises the given files with serializer.ArchiveLicenses; ReadLicenseFile is swapped for the duration.
func buildArchive(files []licFile) ([]byte, error) { return buildArchiveDirs(files, nil) }

// buildArchiveDirs hands file i to ArchiveLicenses as dirs[i%len(dirs)] + name: license files given as paths with a
// directory part (relative, absolute, ./) are archived under their file names just the same.
func buildArchiveDirs(files []licFile, dirs []string) ([]byte, error) {
	swapMu.Lock()
	defer swapMu.Unlock()
	byName := map[string]string{}
	var names []string
	for i, f := range files {
		n := f.Name
		if len(dirs) > 0 {
			n = dirs[i%len(dirs)] + n
		}
		byName[n] = f.Content
		names = append(names, n)
	}
	saved := lc.ReadLicenseFile
	lc.ReadLicenseFile = func(name string) ([]byte, error) {
		if c, ok := byName[name]; ok {
			return []byte(c), nil
		}
		return nil, fmt.Errorf("no such license file %q", name)
	}
	defer func() { lc.ReadLicenseFile = saved }()
	var buf bytes.Buffer
	if err := serializer.ArchiveLicenses(names, &buf); err != nil {
		return nil, err
	}
	return buf.Bytes(), nil
}

// referenceLicense builds the classifier directly from the same normalised texts with fresh search sets.
func referenceLicense(files []licFile, threshold float64) (*lc.License, error) {
	b := stringclassifier.New(threshold, lc.Normalizers...)
	for _, f := range files {
		norm := normalizeAll(lc.TrimExtraneousTrailingText(f.Content))
		if err := b.AddPrecomputedValue(archiveKey(f.Name), norm, searchset.New(norm, searchset.DefaultGranularity)); err != nil {
			return nil, err
		}
	}
	return lc.VerifWrap(b, threshold), nil
}

// referenceLicenseAddValue builds the classifier the plain way: AddValue of the trimmed text (the classifier
// normalises it itself and builds the search set on first use), no precomputed search sets involved.
func referenceLicenseAddValue(files []licFile, threshold float64) (*lc.License, error) {
	b := stringclassifier.New(threshold, lc.Normalizers...)
	for _, f := range files {
		if err := b.AddValue(archiveKey(f.Name), lc.TrimExtraneousTrailingText(f.Content)); err != nil {
			return nil, err
		}
	}
	return lc.VerifWrap(b, threshold), nil
}

// renderOrdered keeps the order in which the matches were returned (License.MultipleMatch sorts its result by a total
// order over confidence, name, offset and extent, so the order is part of the result).
func renderOrdered(ms stringclassifier.Matches) string {
	var out []string
	for _, m := range ms {
		out = append(out, fmt.Sprintf("{%s %b %d %d}", m.Name, m.Confidence, m.Offset, m.Extent))
	}
	return strings.Join(out, " ")
}

func renderMatches(ms stringclassifier.Matches) []string {
	var out []string
	for _, m := range ms {
		out = append(out, fmt.Sprintf("{%s %b %d %d}", m.Name, m.Confidence, m.Offset, m.Extent))
	}
	sort.Strings(out)
	return out
}

// ---------------------------------------------------------------- text variants

func reflow(s string, k int) string {
	w := strings.Fields(s)
	var sb strings.Builder
	for i, x := range w {
		sb.WriteString(x)
		switch {
		case (i+1)%(5+k%7) == 0:
			sb.WriteString("\r\n")
		case (i+k)%4 == 0:
			sb.WriteString("\t")
		case (i+k)%9 == 0:
			sb.WriteString("   ")
		default:
			sb.WriteString(" ")
		}
	}
	return sb.String()
}

func decorate(s, marker string) string {
	ls := strings.Split(s, "\n")
	for i := range ls {
		ls[i] = marker + ls[i]
	}
	return strings.Join(ls, "\n")
}

var variantNames = []string{"as-is", "upper", "lower", "reflow", "decorate //", "decorate #", "decorate  * ", "decorate ;;", "decorate --", "single-line", "wrap-60", "wrap-100"}

func wrapAt(s string, width int) string {
	var sb strings.Builder
	col := 0
	for _, w := range strings.Fields(s) {
		if col > 0 && col+1+len(w) > width {
			sb.WriteString("\n")
			col = 0
		} else if col > 0 {
			sb.WriteString(" ")
			col++
		}
		sb.WriteString(w)
		col += len(w)
	}
	return sb.String() + "\n"
}

func variant(s string, k int) string {
	switch variantNames[((k%len(variantNames))+len(variantNames))%len(variantNames)] {
	case "upper":
		return strings.ToUpper(s)
	case "lower":
		return strings.ToLower(s)
	case "reflow":
		return reflow(s, k)
	case "decorate //":
		return decorate(s, "// ")
	case "decorate #":
		return decorate(s, "# ")
	case "decorate  * ":
		return decorate(s, " * ")
	case "decorate ;;":
		return decorate(s, ";; ")
	case "decorate --":
		return decorate(s, "-- ")
	case "single-line":
		return strings.Join(strings.Fields(s), " ")
	case "wrap-60":
		return wrapAt(s, 60)
	case "wrap-100":
		return wrapAt(s, 100)
	}
	return s
}

// editWords deletes / replaces words at the given positions (bounded edits keep the best match unique).
func editWords(s string, positions []int) string {
	w := strings.Fields(s)
	for i, p := range positions {
		if len(w) < 8 {
			break
		}
		k := ((p % len(w)) + len(w)) % len(w)
		if i%2 == 0 {
			w = append(w[:k], w[k+1:]...)
		} else {
			w[k] = "qqfoo"
		}
	}
	var sb strings.Builder
	for i, x := range w {
		sb.WriteString(x)
		if (i+1)%11 == 0 {
			sb.WriteString("\n")
		} else {
			sb.WriteString(" ")
		}
	}
	return sb.String()
}
