// Package lib is the shared runtime of the /verif harnesses: it drives a
// (generator, oracle) pair with rapid or with a deterministic enumerator,
// records what was generated, captures the shrunk failing case as plain JSON
// and replays such files without going through rapid.
//
// The API is deliberately free of type parameters: the in-package harness
// files are compiled with -lang=go1.16 (the language version of the
// repository's go.mod, which keeps the pre-1.22 loop-variable semantics of the
// code under test), so they cannot instantiate generic functions.
package lib

import (
	"crypto/sha256"
	"encoding/hex"
	"encoding/json"
	"fmt"
	"os"
	"runtime/debug"
	"sort"
	"strconv"
	"strings"
	"testing"
	"time"

	"pgregory.net/rapid"
)

// Outcome is what an oracle returns for one case.
type Outcome struct {
	Violation  string        // non-empty: the property is violated on this case
	Skip       string        // non-empty: case is outside the property's domain (premise failed); counted
	Excluded   string        // non-empty: case falls in a known-finding class; counted, not checked
	Classes    []string      // labels for the distribution histogram
	Nontrivial bool          // case is non-trivial by the part's stated rule
	FP         string        // fingerprint of the case for distinct counting ("" = distinct by construction)
	Sample     interface{}   // compact human-readable rendering for evidence (optional)
	Extra      map[string]int // additional counters to add up
	Digest     string         // digest of the observable result; collected in generation order for cross-process comparison
}

// Spec describes one part of a property check.
type Spec struct {
	ID    string // property id, e.g. C01
	Part  string // part name, e.g. "planted"
	Rule  string // how cases are generated and what makes one non-trivial
	New   func() interface{}
	Gen   func(t *rapid.T) interface{}
	Enum  func(yield func(c interface{}) bool) // deterministic enumerator (optional)
	Check func(c interface{}) Outcome
	// Exhaustive is reported in the stats when Enum ran to completion.
	Exhaustive bool
}

// Envelope is the on-disk format of a replay file.
type Envelope struct {
	Property string          `json:"property"`
	Part     string          `json:"part"`
	Message  string          `json:"message,omitempty"`
	Case     json.RawMessage `json:"case"`
	// History holds the cases that ran in the same process right before the failing one. A replay runs them first, so
	// that failures which depend on what an earlier call left behind reproduce from a fresh process.
	History []json.RawMessage `json:"history,omitempty"`
}

type violation struct {
	Message string            `json:"message"`
	Case    json.RawMessage   `json:"case"`
	History []json.RawMessage `json:"history,omitempty"` // cases that ran in the same process right before it
}

// Stats is what one process writes to VERIF_OUT.
type Stats struct {
	ID          string                 `json:"id"`
	Part        string                 `json:"part"`
	Rule        string                 `json:"rule"`
	Evaluations int                    `json:"evaluations"`
	Classes     map[string]int         `json:"classes"`
	Skips       map[string]int         `json:"skips"`
	Excluded    map[string]int         `json:"excluded"`
	Extra       map[string]int         `json:"extra"`
	FPs         []string               `json:"nontrivial_fps"`
	Unhashed    int                    `json:"nontrivial_unhashed"`
	Samples     []interface{}          `json:"samples"`
	Violation   *violation             `json:"violation"`
	Exhaustive  bool                   `json:"exhaustive"`
	Completed   bool                   `json:"completed"`
	Info        map[string]interface{} `json:"info,omitempty"`
	Digests     []string               `json:"digests,omitempty"`
	Cases       []json.RawMessage      `json:"digest_cases,omitempty"`
	DigestTexts []string               `json:"digest_texts,omitempty"`
}

type recorder struct {
	st       Stats
	fps      map[string]struct{}
	ntSeen   int
	recent   []json.RawMessage // the last few cases before the current one (history for state-dependent failures)
	frozen   bool // after the first violation nothing more is counted (rapid is shrinking)
	slowest  time.Duration
	firstHistory []json.RawMessage
	prewrite string
}

func newRecorder(s Spec) *recorder {
	r := &recorder{fps: map[string]struct{}{}}
	r.st = Stats{ID: s.ID, Part: s.Part, Rule: s.Rule, Classes: map[string]int{}, Skips: map[string]int{}, Excluded: map[string]int{}, Extra: map[string]int{}}
	if os.Getenv("VERIF_PREWRITE") != "" {
		r.prewrite = os.Getenv("VERIF_OUT") + ".current"
	}
	return r
}

func hashFP(s string) string {
	h := sha256.Sum256([]byte(s))
	return hex.EncodeToString(h[:8])
}

func (r *recorder) record(c interface{}, o Outcome) {
	if r.frozen {
		return
	}
	r.st.Evaluations++
	for _, c := range o.Classes {
		r.st.Classes[c]++
	}
	for k, v := range o.Extra {
		r.st.Extra[k] += v
	}
	if o.Digest != "" && len(r.st.Digests) < 20000 {
		r.st.Digests = append(r.st.Digests, hashFP(o.Digest))
		if os.Getenv("VERIF_KEEP_CASES") != "" {
			b, _ := json.Marshal(c)
			r.st.Cases = append(r.st.Cases, b)
			r.st.DigestTexts = append(r.st.DigestTexts, o.Digest)
		}
	}
	if o.Skip != "" {
		r.st.Skips[o.Skip]++
		return
	}
	if o.Excluded != "" {
		r.st.Excluded[o.Excluded]++
		return
	}
	if o.Nontrivial {
		fresh := true
		if o.FP == "" {
			r.st.Unhashed++
		} else {
			h := hashFP(o.FP)
			if _, ok := r.fps[h]; ok {
				fresh = false
			} else {
				r.fps[h] = struct{}{}
			}
		}
		if fresh {
			r.ntSeen++
			n := r.ntSeen
			if n <= 2 || n == 10 || n == 100 || n == 1000 || n == 10000 {
				s := o.Sample
				if s == nil {
					s = c
				}
				r.st.Samples = append(r.st.Samples, s)
			}
		}
	}
}

// remember keeps the last few (small) cases as history.
func (r *recorder) remember(c interface{}) {
	if r.frozen {
		return
	}
	b, err := json.Marshal(c)
	if err != nil || len(b) > 1<<16 {
		return
	}
	r.recent = append(r.recent, b)
	if len(r.recent) > 4 {
		r.recent = r.recent[len(r.recent)-4:]
	}
}

func (r *recorder) flush() {
	out := os.Getenv("VERIF_OUT")
	if out == "" {
		return
	}
	r.st.FPs = r.st.FPs[:0]
	for h := range r.fps {
		r.st.FPs = append(r.st.FPs, h)
	}
	sort.Strings(r.st.FPs)
	b, err := json.Marshal(r.st)
	if err != nil {
		b = []byte(fmt.Sprintf(`{"id":%q,"part":%q,"marshal_error":%q}`, r.st.ID, r.st.Part, err.Error()))
	}
	tmp := out + ".tmp"
	if err := os.WriteFile(tmp, b, 0o644); err == nil {
		os.Rename(tmp, out)
	}
}

// SafeCheck runs check and converts a panic on the calling goroutine into a violation.
func SafeCheck(check func(interface{}) Outcome, c interface{}) (o Outcome) {
	defer func() {
		if p := recover(); p != nil {
			o = Outcome{Violation: fmt.Sprintf("panic: %v\n%s", p, trimStack(debug.Stack()))}
		}
	}()
	return check(c)
}

func trimStack(b []byte) string {
	lines := strings.Split(string(b), "\n")
	var keep []string
	for _, l := range lines {
		if strings.Contains(l, "runtime/debug") || strings.Contains(l, "verif/lib") {
			continue
		}
		keep = append(keep, l)
		if len(keep) > 24 {
			break
		}
	}
	return strings.Join(keep, "\n")
}

// Tier returns "quick" or "thorough".
func Tier() string {
	if os.Getenv("VERIF_TIER") == "thorough" {
		return "thorough"
	}
	return "quick"
}

// EnvInt reads an integer from the environment.
func EnvInt(name string, def int) int {
	if v := os.Getenv(name); v != "" {
		if n, err := strconv.Atoi(v); err == nil {
			return n
		}
	}
	return def
}

// Repo is the root of the repository under test.
func Repo() string {
	if v := os.Getenv("VERIF_REPO"); v != "" {
		return v
	}
	return "/repo"
}

// Run executes one part: replay mode, enumeration or rapid-driven generation.
func Run(t *testing.T, s Spec) {
	mode := os.Getenv("VERIF_MODE")
	if want := os.Getenv("VERIF_PART"); want != "" && want != s.Part && mode != "replay" {
		t.Skipf("part %s not selected", s.Part)
		return
	}
	if mode == "replay" {
		replay(t, s)
		return
	}
	r := newRecorder(s)
	defer r.flush()
	if s.Enum != nil {
		done := true
		s.Enum(func(c interface{}) bool {
			if r.prewrite != "" {
				writeCase(r.prewrite, s, c, "in flight when the process died")
			}
			o := SafeCheck(s.Check, c)
			r.record(c, o)
			if o.Violation != "" {
				r.frozen = true
				b, _ := json.Marshal(c)
				r.st.Violation = &violation{Message: o.Violation, Case: b, History: append([]json.RawMessage{}, r.recent...)}
				done = false
				return false
			}
			r.remember(c)
			return true
		})
		r.st.Completed = true
		r.st.Exhaustive = done && s.Exhaustive
		if r.st.Violation != nil {
			t.Errorf("violation: %s", r.st.Violation.Message)
		}
		return
	}
	defer func() { r.st.Completed = true }()
	rapid.Check(t, func(rt *rapid.T) {
		c := s.Gen(rt)
		if r.prewrite != "" {
			writeCase(r.prewrite, s, c, "in flight when the process died")
		}
		t0 := time.Now()
		o := SafeCheck(s.Check, c)
		if d := time.Since(t0); d > r.slowest && !r.frozen {
			r.slowest = d
			if r.st.Info == nil {
				r.st.Info = map[string]interface{}{}
			}
			r.st.Info["slowest_case_s"] = d.Seconds()
			sm := o.Sample
			if sm == nil {
				sm = c
			}
			r.st.Info["slowest_case"] = sm
		}
		r.record(c, o)
		if o.Violation != "" {
			r.frozen = true
			b, _ := json.Marshal(c)
			if r.st.Violation == nil {
				// the first failing case: keep what ran before it (while rapid shrinks, the history stays that of the
				// original failure)
				r.firstHistory = append([]json.RawMessage{}, r.recent...)
			}
			r.st.Violation = &violation{Message: o.Violation, Case: b, History: r.firstHistory}
			rt.Fatalf("violation: %s", o.Violation)
		}
		r.remember(c)
	})
}

func writeCase(path string, s Spec, c interface{}, msg string) {
	b, err := json.Marshal(c)
	if err != nil {
		return
	}
	e := Envelope{Property: s.ID, Part: s.Part, Message: msg, Case: b}
	eb, _ := json.Marshal(e)
	os.WriteFile(path, eb, 0o644)
}

func replay(t *testing.T, s Spec) {
	paths := strings.Split(os.Getenv("VERIF_REPLAY"), string(os.PathListSeparator))
	for _, p := range paths {
		if p == "" {
			continue
		}
		b, err := os.ReadFile(p)
		if err != nil {
			fmt.Printf("REPLAY-ERROR %s %v\n", p, err)
			t.Errorf("cannot read %s: %v", p, err)
			continue
		}
		var e Envelope
		if err := json.Unmarshal(b, &e); err != nil {
			fmt.Printf("REPLAY-ERROR %s %v\n", p, err)
			t.Errorf("cannot parse %s: %v", p, err)
			continue
		}
		if e.Property != s.ID || e.Part != s.Part {
			continue // another part's file
		}
		c := s.New()
		if err := json.Unmarshal(e.Case, c); err != nil {
			fmt.Printf("REPLAY-ERROR %s %v\n", p, err)
			t.Errorf("cannot decode case in %s: %v", p, err)
			continue
		}
		for _, h := range e.History {
			hc := s.New()
			if json.Unmarshal(h, hc) == nil {
				SafeCheck(s.Check, hc) // outcome irrelevant: it only re-creates what the process had seen before
			}
		}
		o := SafeCheck(s.Check, c)
		switch {
		case o.Violation != "":
			fmt.Printf("REPLAY-FAIL %s %s\n", p, oneLine(o.Violation))
			fmt.Printf("REPLAY-DETAIL-BEGIN\n%s\nREPLAY-DETAIL-END\n", o.Violation)
		case o.Skip != "":
			fmt.Printf("REPLAY-SKIP %s %s\n", p, o.Skip)
		case o.Excluded != "":
			fmt.Printf("REPLAY-EXCLUDED %s %s\n", p, o.Excluded)
		default:
			fmt.Printf("REPLAY-OK %s\n", p)
		}
	}
}

func oneLine(s string) string {
	if i := strings.IndexByte(s, '\n'); i >= 0 {
		s = s[:i]
	}
	if len(s) > 300 {
		s = s[:300]
	}
	return s
}

// Preview renders bytes compactly for samples.
func Preview(b []byte, n int) string {
	if len(b) <= n {
		return strconv.Quote(string(b))
	}
	return strconv.Quote(string(b[:n])) + fmt.Sprintf("...(+%d bytes)", len(b)-n)
}

// WriteCurrent records c as the case in flight (used by harness watchdogs before they abort a hung process).
func WriteCurrent(id, part string, c interface{}, msg string) {
	out := os.Getenv("VERIF_OUT")
	if out == "" {
		return
	}
	writeCase(out+".current", Spec{ID: id, Part: part}, c, msg)
}
