package lib

import (
	"fmt"
	"regexp"
	"runtime"
	"strings"
	"sync"
	"time"
)

var goroutineHeader = regexp.MustCompile(`(?m)^goroutine (\d+) \[([^\]]*)\]:$`)

// blockedStates are the wait reasons of a goroutine that can only continue when another goroutine releases a lock.
func lockWait(state string) bool {
	s := strings.SplitN(state, ",", 2)[0]
	switch s {
	case "sync.Mutex.Lock", "sync.RWMutex.Lock", "sync.RWMutex.RLock", "semacquire":
		return true
	}
	return false
}

// batchStates returns the wait states of the goroutines whose stack mentions marker (the batch's worker closure).
func batchStates(marker string) (states []string, dump string) {
	buf := make([]byte, 1<<20)
	for {
		n := runtime.Stack(buf, true)
		if n < len(buf) {
			buf = buf[:n]
			break
		}
		buf = make([]byte, 2*len(buf))
	}
	dump = string(buf)
	for _, g := range strings.Split(dump, "\n\n") {
		m := goroutineHeader.FindStringSubmatch(g)
		if m == nil || !strings.Contains(g, marker) {
			continue
		}
		states = append(states, m[2])
	}
	return states, dump
}

// WaitBatch waits for a batch of worker goroutines. A batch that is still unfinished after grace is inspected: when
// in three snapshots, 3 s apart, every unfinished worker (a goroutine whose stack mentions marker) is blocked
// acquiring a mutex and none is runnable (callers use this only where the code under test starts no goroutines of its own), nobody is left who could release anything: that is a
// deadlock, a verdict that does not depend on how fast the machine is. Otherwise the wait goes on (up to hard, after
// which the result is "slow", which callers must treat as inconclusive, never as a violation).
func WaitBatch(wg *sync.WaitGroup, marker string, grace, hard time.Duration) (verdict string, report string) {
	done := make(chan struct{})
	go func() { wg.Wait(); close(done) }()
	select {
	case <-done:
		return "done", ""
	case <-time.After(grace):
	}
	deadline := time.Now().Add(hard)
	for time.Now().Before(deadline) {
		allBlocked := true
		var last string
		for snap := 0; snap < 3 && allBlocked; snap++ {
			select {
			case <-done:
				return "done", ""
			case <-time.After(3 * time.Second):
			}
			states, dump := batchStates(marker)
			last = dump
			if len(states) == 0 {
				allBlocked = false
			}
			for _, s := range states {
				if !lockWait(s) {
					allBlocked = false
				}
			}
		}
		if allBlocked {
			select {
			case <-done:
				return "done", ""
			default:
			}
			states, _ := batchStates(marker)
			if len(last) > 6000 {
				last = last[:6000] + "\n..."
			}
			return "deadlock", fmt.Sprintf("%d unfinished worker goroutines, every one blocked (%s) in three snapshots 3 s apart; nobody is left to release a lock\n%s", len(states), strings.Join(states, "; "), last)
		}
	}
	return "slow", ""
}
