package lib

import (
	"pgregory.net/rapid"
)

// Non-generic drawing helpers for harness files compiled with -lang=go1.16.

func IntN(t *rapid.T, lo, hi int, label string) int {
	return rapid.IntRange(lo, hi).Draw(t, label)
}

func Bool(t *rapid.T, label string) bool { return rapid.Bool().Draw(t, label) }

func Float(t *rapid.T, lo, hi float64, label string) float64 {
	return rapid.Float64Range(lo, hi).Draw(t, label)
}

func PickStr(t *rapid.T, xs []string, label string) string {
	return xs[rapid.IntRange(0, len(xs)-1).Draw(t, label)]
}

func PickFloat(t *rapid.T, xs []float64, label string) float64 {
	return xs[rapid.IntRange(0, len(xs)-1).Draw(t, label)]
}

func PickInt(t *rapid.T, xs []int, label string) int {
	return xs[rapid.IntRange(0, len(xs)-1).Draw(t, label)]
}

// Bytes draws an arbitrary byte slice of length lo..hi.
func Bytes(t *rapid.T, lo, hi int, label string) []byte {
	return rapid.SliceOfN(rapid.Byte(), lo, hi).Draw(t, label)
}

// Ints draws n..m integers in [lo,hi].
func Ints(t *rapid.T, n, m, lo, hi int, label string) []int {
	return rapid.SliceOfN(rapid.IntRange(lo, hi), n, m).Draw(t, label)
}

// Perm draws a permutation of 0..n-1.
func Perm(t *rapid.T, n int, label string) []int {
	p := make([]int, n)
	for i := range p {
		p[i] = i
	}
	return rapid.Permutation(p).Draw(t, label)
}

// StrMatching draws a string matching the regular expression.
func StrMatching(t *rapid.T, re string, label string) string {
	return rapid.StringMatching(re).Draw(t, label)
}

// Weighted picks index i with probability proportional to w[i].
func Weighted(t *rapid.T, w []int, label string) int {
	total := 0
	for _, x := range w {
		total += x
	}
	k := rapid.IntRange(0, total-1).Draw(t, label)
	for i, x := range w {
		if k < x {
			return i
		}
		k -= x
	}
	return len(w) - 1
}
