module github.com/google/licenseclassifier

go 1.23

require (
	github.com/google/go-cmp v0.5.2
	github.com/google/licenseclassifier/v2 v2.0.0-alpha.1 // indirect
	github.com/sergi/go-diff v1.1.0
	pgregory.net/rapid v1.3.0
	verif/lib v0.0.0
)

replace verif/lib => @VERIF@/harness/lib
