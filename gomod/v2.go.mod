module github.com/google/licenseclassifier/v2

go 1.23

require (
	github.com/davecgh/go-spew v1.1.1
	github.com/google/go-cmp v0.5.2
	github.com/sergi/go-diff v1.1.0
	pgregory.net/rapid v1.3.0
	verif/lib v0.0.0
)

replace verif/lib => @VERIF@/harness/lib
