"""Table of harness binaries and property checks used by /verif/run."""

BINS = {
    "v2in":    {"dir": "v2", "mod": "v2", "harness": ["v2in"]},
    "sets":    {"dir": "internal/sets", "mod": "root", "harness": ["rootin/setscommon", "rootin/sets"]},
    "intsets": {"dir": "stringclassifier/internal/sets", "mod": "root", "harness": ["rootin/setscommon", "rootin/intsets"]},
    "ext":     {"kind": "ext", "pkg": "."},
    "tokenizer": {"dir": "stringclassifier/searchset/tokenizer", "mod": "root", "harness": ["rootin/tokenizer"]},
    "searchset": {"dir": "stringclassifier/searchset", "mod": "root", "harness": ["rootin/searchset"]},
    "strcls":  {"dir": "stringclassifier", "mod": "root", "harness": ["rootin/strcls"]},
    "commentparser": {"dir": "commentparser", "mod": "root", "harness": ["rootin/commentparser"]},
    "rootpkg": {"dir": ".", "mod": "root", "harness": ["rootin/rootpkg"], "overlay_delete": ["classifier_test.go"]},
    "pq":      {"dir": "stringclassifier/internal/pq", "mod": "root", "harness": ["rootin/pq"]},
}


def part(bin, test, part, quick, thorough, shards=(4, 16), **kw):
    d = {"bin": bin, "test": test, "part": part, "checks": {"quick": quick, "thorough": thorough},
         "shards": {"quick": shards[0], "thorough": shards[1]}}
    d.update(kw)
    return d


def fuzzpart(target, secs):
    return {"bin": "ext", "test": target, "part": "native-fuzz-" + target, "fuzz": target, "fuzztime": {"thorough": secs}, "tiers": ["thorough"],
            "checks": {"quick": 0, "thorough": 0}, "shards": {"quick": 0, "thorough": 1}, "replay_part": "structured", "serial": True,
            "rule": "go test -fuzz=%s for %d s on all cores, seeded with license texts, scenario files and hostile constants; the shared oracle runs inside the target" % (target, secs)}


PROPS = {
    "C01": {
        "rule": "see parts: rapid-generated plantings of corpus documents in verified out-of-vocabulary context + enumeration of every embedded document; oracle = exact expected match (type, name, confidence 1.0, token span, lines) derived from construction; premise verified at token level",
        "assumptions": ["two planted copies never share a physical line (known finding F18, witness replayed)", "line attribution of a document's words is taken from the tokenizer run on the document alone"],
        "parts": [
            part("v2in", "TestVerif_C01_Planted", "planted", 600, 12000, shards=(12, 16)),
            part("v2in", "TestVerif_C01_EveryDoc", "every-document", 0, 0, shards=(4, 16), enum=True),
        ],
    },
    "C02": {
        "rule": "rapid-generated exact / edited / truncated / concatenated license texts and scenario files matched against full and small corpora; oracle = independent banded word-level Levenshtein between the reported token span and the named corpus document: Confidence <= 1 - L/|K| (exact float comparison), Confidence == 1 only for identical spans, StartLine/EndLine = lines of first/last word; non-trivial = at least one fuzzy match; distinct = distinct (threshold, recipe)",
        "assumptions": ["token sequences of input and corpus documents are read white-box from the package's own tokenizer", "unknown words (id 0) never equal any word"],
        "parts": [
            part("v2in", "TestVerif_C02", "similarity-bound", 1600, 100000, shards=(12, 16)),
            part("v2in", "TestVerif_C02_OracleSelfTest", "oracle-selftest", 2000, 20000, shards=(1, 1)),
            part("v2in", "TestVerif_C02_Lines", "line-attribution", 3000, 400000, shards=(6, 16)),
        ],
    },
    "C03": {
        "rule": "rapid-generated inputs (license recipes, hostile byte/fragment mixes, both) x corpora (full, small, tiny synthetic with awkward names) x thresholds in (0,1]; oracle = the well-formedness predicate of the statement evaluated on every result; non-trivial = result has at least one match",
        "assumptions": ["'number of lines in the input' is read as 1 + number of newline bytes (the loosest reading)", "a match with MatchType=Name=Copyright is a pseudo-match unless the corpus really holds such a document"],
        "parts": [part("v2in", "TestVerif_C03", "well-formed", 1600, 120000, shards=(12, 16))],
    },
    "C04": {
        "rule": "four generated experiments with one oracle (bit-identical Results in identical order): call histories against a pristine reference, corpus rebuilt in permuted order / with unrelated documents / as a second instance, caller's byte slices (incl. spare capacity) unchanged, and repeated matching of tie-prone inputs within a process and across separate processes (digest comparison)",
        "assumptions": ["'unrelated' documents share no word with the input (verified per case)"],
        "parts": [
            part("v2in", "TestVerif_C04_History", "history", 240, 5000, shards=(12, 16)),
            part("v2in", "TestVerif_C04_Rebuild", "rebuild", 360, 10000, shards=(12, 16)),
            part("v2in", "TestVerif_C04_CallerBytes", "caller-bytes", 400, 16000, shards=(4, 8)),
            part("v2in", "TestVerif_C04_Repeat", "repeat", 0, 0, shards=(4, 8), enum=True, compare_digest=True),
            part("v2in", "TestVerif_C04_Repetitive", "repetitive", 1600, 100000, shards=(4, 16)),
            part("v2in", "TestVerif_C04_Nested", "nested-documents", 1600, 100000, shards=(4, 16)),
            part("v2in", "TestVerif_C04_RareWords", "rare-word-substitution", 0, 0, shards=(8, 16), enum=True),
        ],
    },
    "C05": {
        "rule": "metamorphic: compositions of 1-4 presentation transformations applied at drawn positions of generated license-bearing inputs; oracle = identical token ids with monotonically mapped lines and identical canonical Match results (names, variants, confidences, token spans, mapped lines); lines ending in a dash and their continuation are exempt (frozen, counted); non-trivial = X has a license match and T(X) != X",
        "assumptions": ["the hyphen exemption is applied per line: a line whose last non-blank rune is a dash and everything up to the next non-blank line are never touched"],
        "parts": [part("v2in", "TestVerif_C05", "presentation", 3000, 150000, shards=(12, 16))],
    },
    "C06": {
        "rule": "metamorphic: notice/date line insertion, list-marker prefixes, hyphen splits, interchangeable spellings and http/https switches at drawn positions of generated license-bearing inputs; oracle: token ids unchanged, reported licenses unchanged (names, variants, confidences, token spans), inserted notices outside license spans reported as Copyright on exactly their line and no Copyright entry elsewhere; non-trivial = X has a license match and an operation was applied",
        "assumptions": ["position restrictions are evaluated with independent, generous predicates written in the harness (never with the tokenizer under test)", "open known findings F13 (<letter>) marker) and F14 (notice inside a reported license span) are excluded by construction / counted; their witnesses are replayed"],
        "parts": [part("v2in", "TestVerif_C06", "ignorable-text", 3000, 150000, shards=(12, 16))],
    },
    "C07": {
        "rule": "metamorphic: Match(P+X+S) equals Match(X) shifted by |P| tokens and lines(P) lines, for generated X (exact, noisy, truncated, multi-license) and OOV blocks P, S; premise verified at token level; non-trivial = Match(X) non-empty and |P| > 0",
        "assumptions": ["tied matches are compared in canonical order (their relative order is C04's subject)"],
        "parts": [part("v2in", "TestVerif_C07", "embedding", 2400, 150000, shards=(12, 16)),
                  part("v2in", "TestVerif_C07_Offsets", "non-ascii-offset-sweep", 0, 0, shards=(4, 16), enum=True)],
    },
    "C08": {
        "rule": "differential: MatchFrom over generated read schedules vs Match on the same bytes vs Match on space-padded bytes (bit-identical Results), fault injection at drawn and at every offset (error returned, zero Results), exhaustive pad / fault / chunk sweeps on multi-byte-dense inputs",
        "assumptions": ["a failing reader keeps failing (sticky error), as io.Reader implementations do"],
        "parts": [
            part("v2in", "TestVerif_C08_Fragmentation", "fragmentation", 1200, 100000, shards=(8, 16)),
            part("v2in", "TestVerif_C08_Faults", "faults", 1600, 100000, shards=(4, 16)),
            part("v2in", "TestVerif_C08_Sweeps", "sweeps", 0, 0, shards=(8, 16), enum=True),
        ],
    },
    "C09": {
        "rule": "generated concurrent batches on one shared classifier under the Go race detector (invariant monitor) with result comparison against a sequential reference; see part rule",
        "assumptions": ["the Go scheduler is not owned by the harness: the race detector makes the verdict independent of the actual interleaving for the code paths executed, result equality under concurrency is sampled"],
        "timeout": {"quick": 600, "thorough": 3000},
        "parts": [part("v2in", "TestVerif_C09", "concurrent-match", 12, 600, shards=(4, 8), race=True, prewrite=True, gomaxprocs=16, timing_tolerant=True)],
    },
    "C10": {
        "rule": "structure-aware rapid generation (quick, thorough) and Go native coverage-guided fuzzing through four targets (thorough only) of byte inputs x thresholds in [0,1] x corpora (empty, empty documents, hostile documents, the input itself, full); oracle: no panic (recovered and reported with the input), no hang, public well-formedness predicate on every result",
        "assumptions": ["the full 431-document corpus is combined with thresholds >= 0.5 only (below, every document is scored against every input: a cost question); small corpora cover thresholds down to 0", "a hang is reported only if the in-flight case, replayed alone, exceeds 300 s"],
        "timeout": {"quick": 300, "thorough": 1500},
        "parts": [
            part("ext", "TestVerif_C10_Rapid", "structured", 1600, 40000, shards=(8, 16), prewrite=True, hang_detect=True),
            fuzzpart("FuzzMatch", 150), fuzzpart("FuzzMatchFrom", 120), fuzzpart("FuzzNormalize", 90), fuzzpart("FuzzAddThenMatch", 150),
        ],
    },
    "C11": {
        "rule": "round trip / metamorphic: Normalize(X) line k == words Match attributes to line k, and Match(Normalize(X)) == Match(X) for licenses, over every embedded document, every scenario file and generated edited / decorated / concatenated inputs",
        "assumptions": ["Normalize by design keeps the original spelling; the comparison maps its words through an independent copy of the interchangeable-spelling table"],
        "parts": [
            part("v2in", "TestVerif_C11", "generated", 1200, 60000, shards=(8, 16)),
            part("v2in", "TestVerif_C11_EveryDoc", "every-document", 0, 0, shards=(4, 16), enum=True),
            part("v2in", "TestVerif_C11_Offsets", "non-ascii-offset-sweep", 0, 0, shards=(4, 16), enum=True),
        ],
    },
    "C12": {
        "rule": "generated directory trees x 12 spellings of the directory argument: LoadLicenses must not panic, must return nil, must ignore shallow and non-txt files and must equal an AddContent-built classifier (keys, token sequences, Match results on probes); DefaultClassifier vs LoadLicenses(assets) compared on every embedded document and scenario file",
        "assumptions": ["trees are created under the driver's scratch directory; the process working directory is changed for relative spellings (cases run sequentially)", "for trees with txt files deeper than category/name/variant only 'no panic, nil error' is asserted (the statement makes no claim about them)"],
        "parts": [part("v2in", "TestVerif_C12_Trees", "trees", 1200, 100000, shards=(8, 16)),
                  part("ext", "TestVerif_C12_Default", "default-classifier", 0, 0, shards=(4, 16), enum=True)],
    },
    "C13": {
        "rule": "generated vocabularies, known-value sets, normaliser lists and unknown strings built around planted copies; constructive oracle (exact Offset/Extent/Confidence) with the premise checked on the normalised strings; see part rule",
        "assumptions": ["a 'copy' is any occurrence of the normalised value in the normalised unknown string found by a left-to-right non-overlapping scan", "panics on goroutines spawned by the library kill the process: the in-flight case is adopted by the driver"],
        "parts": [part("strcls", "TestVerif_C13", "verbatim", 6000, 2000000, shards=(8, 16), prewrite=True)],
    },
    "C14": {
        "rule": "generated concurrent workloads on one v1 classifier under the Go race detector with result comparison against a sequential reference (stringclassifier.Classifier populated lazily and precomputed; licenseclassifier.License built from an in-process archive)",
        "assumptions": ["schedules are sampled, not owned (see C09)", "queries are built so that the best match is unique (NearestMatch is documented as undefined on ties)"],
        "timeout": {"quick": 600, "thorough": 3000},
        "parts": [part("strcls", "TestVerif_C14_StringClassifier", "stringclassifier", 160, 10000, shards=(8, 16), race=True, prewrite=True, gomaxprocs=8, timing_tolerant=True),
                  part("rootpkg", "TestVerif_C14_License", "license", 24, 1200, shards=(4, 16), race=True, prewrite=True, gomaxprocs=8, timing_tolerant=True)],
    },
    "C15": {
        "rule": "differential: classifier loaded from the archive written by ArchiveLicenses vs classifier built directly from the same normalised texts with fresh search sets, over generated archives and queries; see part rule",
        "assumptions": ["license files <= 8 KiB keep go-diff's character-level diffs far from its 1 s wall-clock deadline", "NearestMatch name differences are accepted only when both names are shown to reach the same confidence"],
        "timeout": {"quick": 900, "thorough": 5400},
        "parts": [part("rootpkg", "TestVerif_C15", "archive-roundtrip", 480, 20000, shards=(12, 16), timing_tolerant=True),
                  part("rootpkg", "TestVerif_C15_BigFiles", "big-files", 0, 0, shards=(8, 16), enum=True, timing_tolerant=True)],
    },
    "C16": {
        "rule": "enumeration of every shipped license file x presentation variants against a classifier built in process from the whole licenses/ directory, plus generated threshold-bound cases",
        "assumptions": ["the archive is built in process with serializer.ArchiveLicenses (licenses.db is not shipped in the repository)"],
        "timeout": {"quick": 900, "thorough": 5400},
        "parts": [
            part("rootpkg", "TestVerif_C16_OwnCorpus", "own-corpus", 0, 0, shards=(12, 16), enum=True, timing_tolerant=True),
            part("rootpkg", "TestVerif_C16_Threshold", "threshold-bound", 240, 20000, shards=(4, 16), timing_tolerant=True),
        ],
    },
    "C17": {
        "rule": "generated strings (all Unicode space / punctuation kinds, invalid UTF-8) for the tokenizer invariants; generated low-vocabulary source/target pairs for the candidate-range invariants of FindPotentialMatches and TargetRange",
        "assumptions": ["ordering of a candidate's ranges is read as non-decreasing TargetStart"],
        "parts": [
            part("tokenizer", "TestVerif_C17_Tokenize", "tokenize", 20000, 20000000, shards=(4, 16)),
            part("searchset", "TestVerif_C17_Candidates", "candidates", 12000, 10000000, shards=(8, 16)),
        ],
    },
    "C18": {
        "rule": "reference-model testing: Parse and ChunkIterator against a reference lexer written from the exported per-language tables, exhaustively over all short strings of delimiter-rich alphabets (19 style configurations + every language) and over generated programs",
        "assumptions": ["after an unterminated string or multi-line comment only the comments that ended before it are compared", "'consecutive lines' in ChunkIterator is read as consecutive start lines, the rule pinned by the repository's own test", "text is compared rune-wise (U+FFFD for invalid bytes)"],
        "timeout": {"quick": 600, "thorough": 3000},
        "parts": [
            part("commentparser", "TestVerif_C18_Enum", "small-scope", 0, 0, shards=(12, 16), enum=True, prewrite_watchdog=True, prewrite=False),
            part("commentparser", "TestVerif_C18_Programs", "programs", 20000, 20000000, shards=(4, 16)),
        ],
    },
    "C19": {
        "rule": "differential: the identify_license binary and backend.ClassifyLicenses run over generated file sets vs the library's Match per file computed in process (stdout multiset, exit status, JSON classifications and Text, independence of -tasks)",
        "assumptions": ["'reported' is read as 'printed' (Copyright pseudo-matches included)", "file names contain no blanks (the output format is blank separated)", "-tasks >= 1"],
        "timeout": {"quick": 600, "thorough": 3000},
        "parts": [
            part("ext", "TestVerif_C19_CLI", "cli", 64, 2000, shards=(8, 16), cli=True),
            part("ext", "TestVerif_C19_Backend", "backend", 120, 5000, shards=(4, 8), prewrite=True),
            part("ext", "TestVerif_C19_Backend", "backend-race", 0, 600, shards=(0, 8), race=True, prewrite=True, tiers=["thorough"], env={"VERIF_PART": "backend"}),
        ],
    },
    "C20": {
        "rule": "rapid-generated operation sequences interpreted against reference models (map / list) with the invariant "
                "checked after every step, plus exhaustive small-scope enumerations; non-trivial and distinct are defined per part (see parts)",
        "assumptions": ["nil receivers are only used where the API documents them (Copy, Equal); Pop/Min on an empty queue are documented to panic and are not issued"],
        "parts": [
            part("sets", "TestVerif_C20_SetRandom", "stringset-random", 4000, 3000000),
            part("sets", "TestVerif_C20_SetPairs", "stringset-pairs", 0, 0, shards=(1, 1), enum=True),
            part("sets", "TestVerif_C20_SetSeqs", "stringset-seqs", 0, 0, shards=(4, 16), enum=True),
            part("intsets", "TestVerif_C20_SetRandom", "intset-random", 4000, 3000000),
            part("intsets", "TestVerif_C20_SetPairs", "intset-pairs", 0, 0, shards=(1, 1), enum=True),
            part("intsets", "TestVerif_C20_SetSeqs", "intset-seqs", 0, 0, shards=(4, 16), enum=True),
            part("pq", "TestVerif_C20_PQRandom", "pq-random", 6000, 1000000),
            part("pq", "TestVerif_C20_PQEnum", "pq-enum", 0, 0, shards=(4, 16), enum=True),
        ],
    },
}

# texts for MANIFEST.json (level_claimed.text, level_note, technique) per claimed property
_V2NOTE = "Trusts: the harness' own generators/oracles, the package tokenizer for white-box token sequences (premise checks and spans), Go's runtime. Corpus files are read from /repo/v2/assets at run time; the build compiles /repo's working tree."
MANIFEST_TEXT = {
    "C01": {
        "level": "Generated-input search with an exact constructive oracle: hundreds (quick) to thousands (thorough) of plantings of 1-4 corpus documents in verified out-of-vocabulary context across thresholds 0.7-1.0, full/small corpora and user-added documents, plus an enumeration of every embedded document (x every menu threshold in thorough). Every embedded document is also planted twice, and user-added documents get token-identical twins in other categories (a copy is then a copy of both). Each planted copy must be reported with Confidence exactly 1.0, exact token span and lines. Bounded exploration. Context words include letters outside ASCII (multi-byte, case-length-changing, special-low-byte); synthetic corpus documents include schedules whose q-grams repeat hundreds of times.",
        "note": _V2NOTE + " Layouts where two copies share a physical line are excluded by construction (known finding F18).",
        "technique": "property-based testing (rapid) with constructive oracle + exhaustive enumeration over corpus documents",
    },
    "C02": {
        "level": "Generated-input search against an independent reference: every reported match is re-scored with a separately written banded word-level Levenshtein (itself self-tested against the quadratic algorithm); the bound Confidence <= 1 - L/|K| is compared exactly and is tight in ~98% of matches, so off-by-one errors in counting, trimming or the divisor are visible; a quarter of the small-corpus cases run with scoring traced (tracing must not change the score). A second part checks line attribution against an oracle that only looks at the physical lines (found F23). Bounded exploration.",
        "note": _V2NOTE,
        "technique": "property-based testing (rapid) with a reference-implementation oracle (independent Levenshtein)",
    },
    "C03": {
        "level": "Generated-input search with a validity predicate: the statement's well-formedness conditions are evaluated on every result for arbitrary/hostile inputs, thresholds across (0,1] and corpora with awkward names, plus pairs of large synthetic documents whose confidences differ by less than 1e-6 (ordering) and hyphen runs at line ends (line bounds). Bounded exploration.",
        "note": _V2NOTE,
        "technique": "property-based testing (rapid) with a validity-predicate oracle",
    },
    "C04": {
        "level": "Generated call histories (model-based: reference results from a pristine classifier), corpus permutations/supersets, caller-buffer snapshots, repeated/cross-process matching of tie-prone inputs, self-repeating documents and corpora whose documents contain each other, all with the oracle 'bit-identical ordered Results'. Found the tie-order defect F1 (fixed). Bounded exploration; separate processes vary Go's map seeds. Corpora with one text under several names (prefix-rule names, names differing in case only) are compared across insertion orders and repeated calls.",
        "note": _V2NOTE + " Cross-process comparison assumes the deterministic batch is identical in every process (it is a pure function of the tree).",
        "technique": "stateful property-based testing against a pristine reference + metamorphic corpus permutation + cross-process digest comparison",
    },
    "C05": {
        "level": "Metamorphic property testing at two levels (token stream and Match results): thousands of compositions of presentation transformations at drawn positions of generated license-bearing inputs, with the hyphen exemption applied per line (incl. multi-byte blanks). Found F22/F23 through its thorough tier (fixed). Bounded exploration.",
        "note": _V2NOTE,
        "technique": "metamorphic property-based testing (rapid)",
    },
    "C06": {
        "level": "Metamorphic property testing: notice/date insertion, list markers, hyphen splits, spelling pairs and http/https at drawn positions; token ids and reported licenses must be unchanged and inserted notices reported on their line; a quarter of the small-corpus cases run on a classifier that has normalized the texts before (call history). Two genuine deviations are recorded as known findings (F13, F14) and excluded by construction so the search continues behind them. Bounded exploration. Notice templates include non-ASCII lead-ins.",
        "note": _V2NOTE + " Position restrictions use independent predicates written in the harness, not the tokenizer under test.",
        "technique": "metamorphic property-based testing (rapid) with known-finding classes excluded by construction",
    },
    "C07": {
        "level": "Metamorphic property testing: thousands of (X, prefix, suffix) triples; Match(P+X+S) must equal Match(X) shifted, for exact, noisy, truncated and multi-license X; a token-level difference of X in context is itself a violation. A second part sweeps the byte offset of every corpus document with non-ASCII letters over one read-buffer length. Found F22 (fixed). Bounded exploration. Blocks range up to 40000 distinct words.",
        "note": _V2NOTE,
        "technique": "metamorphic property-based testing (rapid)",
    },
    "C08": {
        "level": "Differential testing with generated reader schedules, pads and injected faults, plus exhaustive sweeps (every pad 0..2056, every failure offset, chunk sizes around the 1024-byte buffer) on inputs with multi-byte runes every few bytes, words hyphenated over line breaks (ASCII and typographic hyphens) and cut-off multi-byte tails at lengths around the read chunk. Found F25 (fixed). Bounded exploration; exhaustive within the swept inputs.",
        "note": _V2NOTE,
        "technique": "differential property-based testing (rapid) + fault injection + exhaustive parameter sweeps",
    },
    "C10": {
        "level": "Structure-aware generated-input search (rapid) in both tiers plus Go native coverage-guided fuzzing through four in-process targets in the thorough tier; the oracle (no panic, no hang, well-formed results) runs inside every target. Corpus documents are also cut from the input itself (k words around the q-gram size). Found the threshold-0 panic F3 (fixed). Bounded exploration; absence of crashes is never established. Hostile atoms include list-marker words with letters that change byte length under lower-casing (raw and as HTML entities), BOM, U+2028/U+0085, zero-width and combining characters.",
        "note": "Public API only (external module with replace => /repo/v2). Panics are recovered and reported with the input; a hang is reported only when the in-flight case does not finish within 300 s alone. Native fuzzing cannot be pinned to a seed: its saved failing input is the reproducible unit.",
        "technique": "structure-aware property-based testing (rapid) + coverage-guided fuzzing (go test -fuzz)",
    },
    "C11": {
        "level": "Round-trip / metamorphic testing over every embedded document, every scenario file and thousands of generated edited / decorated inputs, plus a byte-offset sweep of every document with non-ASCII letters. Found and repaired three Normalize line-alignment defects (F9, F10, F20); three further root causes are recorded as known findings (F11, F12, F19) with class predicates that exclude them by construction. Bounded exploration; exhaustive over the shipped corpus and scenarios.",
        "note": _V2NOTE + " The comparison maps Normalize's words through an independent copy of the spelling table.",
        "technique": "round-trip property-based testing (rapid) + exhaustive enumeration over corpus and scenario files",
    },
    "C12": {
        "level": "Differential testing against a reference construction: generated directory trees x 13 spellings of the directory argument, LoadLicenses vs AddContent per file (keys, token sequences, Match results; names incl. blanks, non-ASCII and invalid UTF-8), and DefaultClassifier vs LoadLicenses(assets) over every embedded document and scenario. Found the path-handling defects F4 (fixed). Bounded exploration. Files of 64 KiB and more are included.",
        "note": _V2NOTE + " Trees live under the driver's scratch directory; relative spellings change the process working directory (cases run sequentially).",
        "technique": "differential property-based testing (rapid) with generated file-system trees",
    },
    "C09": {
        "level": "Generated concurrent batches (2-64 goroutines, barrier start, mixed Match/MatchFrom, edited inputs that drive the diff library's half-match path) executed under the Go race detector, plus comparison of every concurrent result with a sequential reference; two thirds of the batches run on fresh (cold) classifiers, half of those with wildcard trace configurations and a tracer that does not synchronise. A batch whose workers are all blocked on a mutex is reported as a deadlock. Found the shared-runes race F2 (fixed). The schedule is sampled, not owned; the race detector's happens-before analysis makes the verdict independent of the interleaving for the executed paths. Half of the batches include an input of more than 65536 words.",
        "note": _V2NOTE + " Race reports need no confirmation (no false positives); the in-flight batch is saved as the replay.",
        "technique": "generated concurrent workloads under the race detector (invariant monitor) + differential comparison with a sequential reference",
    },
    "C13": {
        "level": "Generated-input search with a constructive oracle: vocabularies with regular-expression metacharacters, Unicode and invalid UTF-8, known-value sets with unique tokens, normaliser lists and unknown strings built around planted copies; every verbatim copy (also when glued to word characters, adjacent to another copy, or the whole string) must be reported with exact Offset / Extent / Confidence 1.0, NearestMatch offsets lie inside the input, and AddValue must accept every string. Found F5 (regular-expression compilation), F17 (one-token values) and F21 (adjacent copies), all fixed. Bounded exploration. Near-duplicate values range beyond 1000 and 10000 bytes.",
        "note": "In-package harness (package stringclassifier). Panics on goroutines spawned by the library kill the process; the case in flight is written first and adopted by the driver.",
        "technique": "property-based testing (rapid) with a constructive oracle",
    },
    "C14": {
        "level": "Generated concurrent workloads (barrier start on a fresh classifier so the lazily built search sets are created concurrently; mixes of MultipleMatch, NearestMatch, AddValue; License built from a precomputed archive) executed under the Go race detector, with every result compared with a sequential reference; contended AddValue of one key, texts of 0-3 words; a batch whose workers are all blocked on a mutex is reported as a deadlock. Found the lazy search-set race F6 (fixed). Schedules are sampled.",
        "note": "Built with -race. Texts are kept small so that go-diff's 1 s wall-clock deadline is never near.",
        "technique": "generated concurrent workloads under the race detector + differential comparison with a sequential reference",
    },
    "C15": {
        "level": "Differential testing: for generated archives (real license files in drawn order plus synthetic ones served through the swapped ReadLicenseFile variable) the classifier loaded from ArchiveLicenses' output is compared with one built directly from the same normalised texts (once with fresh precomputed search sets, once through plain AddValue), on generated queries incl. typo-ridden and filler-stuffed texts (MultipleMatch in both header modes, NearestMatch with tie analysis), optionally after a decoy archive with the same file names was loaded; every large license file and synthetic licenses beyond every shipped size are archived as well. Bounded exploration. A quarter of the archives are built from paths with a directory part.",
        "note": "External test package in the repository root with a guarded in-package export helper (injected, not committed); the root package's own TestMain (needs licenses.db, not shipped) is hidden from the build through the overlay.",
        "technique": "differential property-based testing (rapid) of a serialisation round trip",
    },
    "C16": {
        "level": "Exhaustive enumeration of every shipped license file x 9 presentation variants against a classifier built in process from the whole licenses/ directory (all in thorough; every file as is plus a rotating quarter of the variants in quick), plus generated threshold-bound cases for MultipleMatch (also with the Threshold field changed after construction). Exhaustive over the corpus, bounded otherwise.",
        "note": "The archive is built in process with serializer.ArchiveLicenses because licenses.db is not part of the repository.",
        "technique": "exhaustive enumeration over the corpus x variants + property-based testing (rapid) of the threshold bound",
    },
    "C17": {
        "level": "Generated-input search with validity predicates: strings over all kinds of Unicode space / punctuation and invalid UTF-8 for the tokenizer invariants (offsets reproduce the text, increasing, covering every non-space byte); low-vocabulary repetitive source/target pairs for the candidate-range invariants of FindPotentialMatches / TargetRange. Found F7 (invalid UTF-8 token text), fixed. Bounded exploration.",
        "note": "In-package harnesses (packages tokenizer and searchset).",
        "technique": "property-based testing (rapid) with validity-predicate oracles",
    },
    "C18": {
        "level": "Reference-model testing, exhaustive in small scope: every string of up to 5 (quick) / 8 (thorough) atoms over delimiter-rich alphabets for 19 style configurations and every language at a smaller bound (also next to look-alike runes whose code point has a delimiter byte as low byte), plus generated long programs, compared with a reference lexer written from the exported language tables; ChunkIterator is checked for exactly-once, order and grouping. Found and repaired two lexer defects (F15, F16); after the repair the implementation and the reference agree on all enumerated strings. Generated programs also place lexemes at rune columns 256 / 65536 / 131072 and include runes whose low byte is a quote character.",
        "note": "In-package harness (package commentparser). The reference asserts nothing after an unterminated string / multi-line comment.",
        "technique": "exhaustive small-scope enumeration + property-based testing (rapid) against a reference model",
    },
    "C19": {
        "level": "Differential testing of the built binary and of the backend against the library: generated file sets, argument shapes and flag combinations; stdout multiset, exit status, JSON classifications and Text are compared with in-process Match results. File sets include duplicates, two-header files, CRLF / binary / empty files and symbolic links. Found the 64 KiB line defect F8 and the send-on-closed-channel crash F24 (both fixed). Bounded exploration; the -tasks fan-out is additionally run under -race in the thorough tier.",
        "note": "The CLI is built from /repo's working tree by the driver into its scratch directory. Expected results use assets.DefaultClassifier() in the test process. File names contain no blanks.",
        "technique": "differential property-based testing (rapid) of the CLI binary against the library",
    },
    "C20": {
        "level": "Model-based property testing: thousands of generated operation sequences per container are interpreted against reference models (map / list) with the full invariant checked after every step (queues also grow to thousands of items and are drained in runs), plus exhaustive enumeration of all subset pairs x binary operations and of all short action sequences. Bounded exploration, not proof; exhaustive within the enumerated scopes.",
        "note": "Trusts the reference models written in the harness and Go's map/sort. Nil receivers only where documented. Aliasing is detected by an immediate sentinel probe and by the per-step invariant.",
        "technique": "stateful property-based testing against a reference model (rapid) + exhaustive small-scope enumeration",
    },
}
