"""Table of harness binaries and property checks used by /verif/run."""

BINS = {
    "v2in":    {"dir": "v2", "mod": "v2", "harness": ["v2in"]},
    "sets":    {"dir": "internal/sets", "mod": "root", "harness": ["rootin/setscommon", "rootin/sets"]},
    "intsets": {"dir": "stringclassifier/internal/sets", "mod": "root", "harness": ["rootin/setscommon", "rootin/intsets"]},
    "pq":      {"dir": "stringclassifier/internal/pq", "mod": "root", "harness": ["rootin/pq"]},
}


def part(bin, test, part, quick, thorough, shards=(4, 16), **kw):
    d = {"bin": bin, "test": test, "part": part, "checks": {"quick": quick, "thorough": thorough},
         "shards": {"quick": shards[0], "thorough": shards[1]}}
    d.update(kw)
    return d


PROPS = {
    "C01": {
        "rule": "see parts: rapid-generated plantings of corpus documents in verified out-of-vocabulary context + enumeration of every embedded document; oracle = exact expected match (type, name, confidence 1.0, token span, lines) derived from construction; premise verified at token level",
        "assumptions": ["two planted copies never share a physical line (known finding F18, witness replayed)", "line attribution of a document's words is taken from the tokenizer run on the document alone"],
        "parts": [
            part("v2in", "TestVerif_C01_Planted", "planted", 600, 8000, shards=(12, 16)),
            part("v2in", "TestVerif_C01_EveryDoc", "every-document", 0, 0, shards=(4, 16), enum=True),
        ],
    },
    "C20": {
        "rule": "rapid-generated operation sequences interpreted against reference models (map / list) with the invariant "
                "checked after every step, plus exhaustive small-scope enumerations; non-trivial and distinct are defined per part (see parts)",
        "assumptions": ["nil receivers are only used where the API documents them (Copy, Equal); Pop/Min on an empty queue are documented to panic and are not issued"],
        "parts": [
            part("sets", "TestVerif_C20_SetRandom", "stringset-random", 4000, 100000),
            part("sets", "TestVerif_C20_SetPairs", "stringset-pairs", 0, 0, shards=(1, 1), enum=True),
            part("sets", "TestVerif_C20_SetSeqs", "stringset-seqs", 0, 0, shards=(4, 16), enum=True),
            part("intsets", "TestVerif_C20_SetRandom", "intset-random", 4000, 100000),
            part("intsets", "TestVerif_C20_SetPairs", "intset-pairs", 0, 0, shards=(1, 1), enum=True),
            part("intsets", "TestVerif_C20_SetSeqs", "intset-seqs", 0, 0, shards=(4, 16), enum=True),
            part("pq", "TestVerif_C20_PQRandom", "pq-random", 6000, 200000),
            part("pq", "TestVerif_C20_PQEnum", "pq-enum", 0, 0, shards=(4, 16), enum=True),
        ],
    },
}

# texts for MANIFEST.json (level_claimed.text, level_note, technique) per claimed property
MANIFEST_TEXT = {
    "C20": {
        "level": "Model-based property testing: thousands of generated operation sequences per container are interpreted against reference models (map / list) with the full invariant checked after every step, plus exhaustive enumeration of all subset pairs x binary operations and of all short action sequences. Bounded exploration, not proof; exhaustive within the enumerated scopes.",
        "note": "Trusts the reference models written in the harness and Go's map/sort. Nil receivers only where documented. Aliasing is detected by an immediate sentinel probe and by the per-step invariant.",
        "technique": "stateful property-based testing against a reference model (rapid) + exhaustive small-scope enumeration",
    },
}
