#!/usr/bin/env python3
"""Confirm a seeded change produced by a sub-agent and run the property's check against it.

usage: tryseed.py <ID> <A|B> <demo package dir relative to the repository root> [--tier quick|thorough] [--props C01,C02] [--race]

1. scratch worktree /tmp/mut (at /repo's HEAD): the patch applies, both modules build, the pinned tests pass;
2. the demonstration fails with the patch and passes without it (run in the scratch worktree);
3. the patch is applied to /repo itself (git -C /repo apply), the named checks run, and it is undone straight
   afterwards (git -C /repo checkout -- .), as the task prescribes;
4. on success the seed is stored as /verif/seeded/<ID>-<letter>/ (patch.diff, demonstration, meta.json).
"""
import json, os, shutil, subprocess, sys, time

VERIF = os.path.dirname(os.path.dirname(os.path.abspath(__file__)))
WT = os.environ.get("TRYSEED_WT", "/tmp/mut")
TAG = os.environ.get("TRYSEED_TAG", "")
RPL = "/tmp/seedreplays" + TAG
ENV = dict(os.environ, GOFLAGS="-mod=mod", GOPROXY="off", GOSUMDB="off", GOTOOLCHAIN="local")


def sh(cmd, cwd=None, env=ENV, timeout=1800):
    p = subprocess.run(cmd, shell=True, cwd=cwd, env=env, text=True, errors="replace", stdout=subprocess.PIPE, stderr=subprocess.STDOUT, timeout=timeout)
    return p.returncode, p.stdout


def pinned_tests(root):
    rc1, o1 = sh("go build ./... && go test -vet=off -count=1 ./...", cwd=os.path.join(root, "v2"))
    rc2, o2 = sh("go build ./... && go test -vet=off -count=1 ./stringclassifier/... ./commentparser/... ./internal/... ./serializer/...", cwd=root)
    ok = rc1 == 0 and rc2 == 0 and "FAIL" not in o1 and "FAIL" not in o2
    return ok, (o1 + o2)[-1500:]


def main():
    a = sys.argv[1:]
    pid, letter, demodir = a[0], a[1], a[2]
    tier = a[a.index("--tier") + 1] if "--tier" in a else "quick"
    props = a[a.index("--props") + 1].split(",") if "--props" in a else [pid]
    race = "--race" in a
    scratch = "--scratch" in a  # run the checks against the scratch worktree (VERIF_REPO) instead of patching /repo
    root = a[a.index("--root") + 1] if "--root" in a else "/tmp/seed"
    suffix = a[a.index("--suffix") + 1] if "--suffix" in a else ""
    seeddir = "%s/%s/_seed" % (root, pid)
    patch = os.path.join(seeddir, letter + ".diff")
    if os.path.exists(os.path.join(seeddir, letter + ".manual.diff")):
        # the change was carried over by hand onto a later /repo HEAD (a fix: commit touched the same lines)
        patch = os.path.join(seeddir, letter + ".manual.diff")
    demo = os.path.join(seeddir, letter + "_demo_test.go")
    meta = {"property": pid, "seed": letter, "tier": tier, "checks_run": props}
    if patch.endswith(".manual.diff"):
        meta["note"] = "patch carried over by hand onto /repo HEAD after a fix: commit touched the same lines"
    if not os.path.isdir(WT):
        sh("git -C /repo worktree prune; git -C /repo worktree add --detach %s" % WT)
    sh("git -C %s reset -q --hard && git -C %s clean -fdq && git -C %s checkout -q --detach $(git -C /repo rev-parse HEAD)" % (WT, WT, WT))
    rc, out = sh("git apply %s" % patch, cwd=WT)
    if rc != 0:
        # /repo has moved on (fix: commits): try a 3-way application and keep the rebased patch
        rc, out = sh("git apply -3 %s" % patch, cwd=WT)
        if rc != 0 or "with conflicts" in out or "U " in sh("git status --short", cwd=WT)[1]:
            print("PATCH DOES NOT APPLY (even 3-way):", out[-600:])
            return 2
        sh("git reset -q", cwd=WT)
        rebased = "%s/%s.rebased.diff" % (seeddir, letter)
        open(rebased, "w").write(sh("git diff", cwd=WT)[1])
        sh("git checkout -q -- .", cwd=WT)
        patch = rebased
        rc, out = sh("git apply %s" % patch, cwd=WT)
        if rc != 0:
            print("REBASED PATCH DOES NOT APPLY:", out)
            return 2
        meta["patch_rebased_onto"] = sh("git -C /repo rev-parse --short HEAD")[1].strip()
    meta["files_touched"] = sh("git diff --stat | cat", cwd=WT)[1].strip().splitlines()
    ok, out = pinned_tests(WT)
    meta["pinned_tests_pass_with_change"] = ok
    print("pinned tests with change:", "pass" if ok else "FAIL\n" + out)
    # demonstration
    dst = os.path.join(WT, demodir, "zz_seed_demo_test.go")
    shutil.copy(demo, dst)
    cmd = "go test -vet=off -count=1 %s ." % ("-race" if race else "")
    rc_with, out_with = sh(cmd, cwd=os.path.join(WT, demodir))
    sh("git checkout -q -- .", cwd=WT)
    rc_without, out_without = sh(cmd, cwd=os.path.join(WT, demodir))
    os.remove(dst)
    meta["demo_fails_with_change"] = rc_with != 0
    meta["demo_passes_without_change"] = rc_without == 0
    print("demo with change: %s; without: %s" % ("fails" if rc_with != 0 else "PASSES", "passes" if rc_without == 0 else "FAILS\n" + out_without[-800:]))
    if rc_with != 0:
        meta["demo_failure_excerpt"] = out_with[-600:]
    # the checks, against /repo itself
    target = WT if scratch else "/repo"
    st = sh("git -C %s status --porcelain" % target)[1].strip()
    if st:
        print(target + " is not clean, refusing:", st)
        return 2
    results = {}
    meta["checks_ran_against"] = "scratch worktree via VERIF_REPO" if scratch else "/repo (git apply, undone afterwards)"
    try:
        rc, out = sh("git -C %s apply %s" % (target, patch))
        if rc != 0:
            print("cannot apply:", out)
            return 2
        for p in props:
            t0 = time.time()
            r = subprocess.run([os.path.join(VERIF, "run"), p, "--tier", tier], env=dict(os.environ, VERIF_REPLAY_DIR=RPL, VERIF_EVIDENCE_DIR="/tmp/seedevidence"+TAG, VERIF_REPO=target),
                               text=True, errors="replace", stdout=subprocess.PIPE, stderr=subprocess.PIPE)
            verdict = {0: "missed", 1: "caught", 2: "inconclusive"}.get(r.returncode, str(r.returncode))
            first = ""
            lines = r.stderr.splitlines()
            for i, l in enumerate(lines):
                if l.startswith("  "):
                    first = l.strip()[:300]
                    break
            results[p] = {"verdict": verdict, "wall_s": round(time.time() - t0, 1), "message": first}
            print("%s %s: %s (%.0fs) %s" % (p, tier, verdict, time.time() - t0, first[:200]))
            if verdict == "inconclusive":
                print(r.stderr[-1200:])
    finally:
        sh("git -C %s checkout -- ." % target)
        shutil.rmtree(RPL, ignore_errors=True)
    meta["results"] = results
    print(json.dumps(meta, indent=1))
    out = os.path.join(VERIF, "seeded", "%s-%s%s" % (pid, letter, suffix))
    if meta["pinned_tests_pass_with_change"] and meta["demo_fails_with_change"] and meta["demo_passes_without_change"]:
        os.makedirs(out, exist_ok=True)
        shutil.copy(patch, os.path.join(out, "patch.diff"))
        shutil.copy(demo, os.path.join(out, "demo_test.go.txt"))
        notes = os.path.join(seeddir, "notes.md")
        if os.path.exists(notes):
            shutil.copy(notes, os.path.join(out, "agent_notes.md"))
        mpath = os.path.join(out, "meta.json")
        old = json.load(open(mpath)) if os.path.exists(mpath) else {}
        old.update({k: v for k, v in meta.items() if k != "results"})
        old.setdefault("results", {}).setdefault(tier, {}).update(results)
        old["demo_package_dir"] = demodir
        json.dump(old, open(mpath, "w"), indent=1)
        print("stored in", out)
    else:
        print("NOT KEPT: confirmation failed")
    return 0


sys.exit(main())
