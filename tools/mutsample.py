#!/usr/bin/env python3
"""Automatic sensitivity sampling (DESIGN.md 8.7): generate small mechanical mutants of the library sources
(relational operator slips, && / ||, +-1 on constants, continue <-> break, dropped `!`), keep those that still compile
and pass the repository's own test suite, and run the property checks that guard the mutated file against each of them
in a scratch worktree (never /repo). A mutant that survives the suite and every listed check is either equivalent
or a gap; survivors are listed for inspection.

usage: mutsample.py --files v2/tokenizer.go,v2/searchset.go --per-file 12 [--seed 1] [--wt /tmp/mut4] [--out /tmp/mutsample.json]
"""
import json, os, random, re, subprocess, sys, time, shutil

VERIF = os.path.dirname(os.path.dirname(os.path.abspath(__file__)))
ENV = dict(os.environ, GOFLAGS="-mod=mod", GOPROXY="off", GOSUMDB="off", GOTOOLCHAIN="local")

# which checks guard a file, cheapest / most specific first (the trial stops at the first check that fails)
GUARDS = [
    ("v2/tokenizer.go", ["C11", "C06", "C05", "C08", "C02", "C03", "C01", "C07", "C04", "C10"]),
    ("v2/searchset.go", ["C01", "C07", "C02", "C03", "C04", "C10", "C05"]),
    ("v2/scoring.go", ["C02", "C01", "C03", "C07", "C04", "C10"]),
    ("v2/classifier.go", ["C03", "C01", "C12", "C04", "C02", "C07", "C11", "C08", "C10", "C09"]),
    ("v2/document.go", ["C01", "C02", "C04", "C03", "C11"]),
    ("v2/frequencies.go", ["C01", "C03", "C07", "C04"]),
    ("v2/trace.go", ["C04", "C09", "C02"]),
    ("v2/assets/", ["C12"]),
    ("v2/tools/", ["C19"]),
    ("stringclassifier/searchset/tokenizer/", ["C17", "C13", "C14"]),
    ("stringclassifier/searchset/", ["C17", "C13", "C15", "C16"]),
    ("stringclassifier/internal/pq/", ["C20", "C13"]),
    ("stringclassifier/", ["C13", "C14", "C15", "C16"]),
    ("commentparser/", ["C18"]),
    ("internal/sets/", ["C20"]),
    ("serializer/", ["C15", "C16"]),
    ("classifier.go", ["C16", "C15", "C14"]),
]

OPS = [
    (r"(?<![<>=!:+\-*/&|])<=(?!=)", "<"), (r"(?<![<>=!:+\-*/&|-])<(?![<=\-])", "<="),
    (r"(?<![<>=!:+\-*/&|])>=(?!=)", ">"), (r"(?<![<>=!:+\-*/&|\-])>(?![>=])", ">="),
    (r"==", "!="), (r"!=", "=="),
    (r"&&", "||"), (r"\|\|", "&&"),
    (r"\+ 1\b", "+ 2"), (r"- 1\b", "- 2"), (r"\+ 1\b", ""), (r"- 1\b", ""),
    (r"\bcontinue\b", "break"), (r"\bbreak\b", "continue"),
    (r"(?<![A-Za-z0-9_)\]])!(?=[A-Za-z(])", ""),
    (r"\[(\w+):\]", r"[\1+1:]"), (r"\[:(\w+)\]", r"[:\1-1]"),
    (r"\b0\b", "1"), (r"\b1\b", "0"),
]


def sh(cmd, cwd=None, timeout=None):
    try:
        r = subprocess.run(cmd, shell=True, cwd=cwd, env=ENV, text=True, errors="replace", stdout=subprocess.PIPE, stderr=subprocess.STDOUT, timeout=timeout)
        return r.returncode, r.stdout
    except subprocess.TimeoutExpired as e:
        return 124, (e.stdout or "") if isinstance(e.stdout, str) else ""


def guards_for(path):
    for prefix, props in GUARDS:
        if path.startswith(prefix) or path == prefix:
            return props
    return []


def candidates(path, src):
    out = []
    in_block = False
    for ln, line in enumerate(src.split("\n")):
        s = line.strip()
        if in_block:
            if "*/" in s:
                in_block = False
            continue
        if s.startswith("/*"):
            in_block = "*/" not in s
            continue
        if s.startswith("//") or s.startswith("import") or s.startswith("package") or '"' in line and s.startswith('"'):
            continue
        code = line.split("//")[0]
        # do not touch string literals: blank them out for matching purposes
        masked = re.sub(r'"(\\.|[^"\\])*"', lambda m: "\x00" * len(m.group(0)), code)
        masked = re.sub(r"`[^`]*`", lambda m: "\x00" * len(m.group(0)), masked)
        masked = re.sub(r"'(\\.|[^'\\])+'", lambda m: "\x00" * len(m.group(0)), masked)
        for k, (pat, rep) in enumerate(OPS):
            for m in re.finditer(pat, masked):
                new = code[:m.start()] + m.expand(rep) + code[m.end():] + line[len(code):]
                if new != line:
                    out.append({"file": path, "line": ln + 1, "op": k, "old": line, "new": new})
    return out


def main():
    a = sys.argv[1:]
    files = a[a.index("--files") + 1].split(",")
    per = int(a[a.index("--per-file") + 1]) if "--per-file" in a else 10
    seed = int(a[a.index("--seed") + 1]) if "--seed" in a else 1
    wt = a[a.index("--wt") + 1] if "--wt" in a else "/tmp/mut4"
    outp = a[a.index("--out") + 1] if "--out" in a else "/tmp/mutsample.json"
    tier = a[a.index("--tier") + 1] if "--tier" in a else "quick"
    rnd = random.Random(seed)
    if not os.path.isdir(wt):
        sh("git -C /repo worktree prune; git -C /repo worktree add --detach %s" % wt)
    sh("git reset -q --hard && git clean -fdq && git checkout -q --detach $(git -C /repo rev-parse HEAD)", cwd=wt)
    results = []
    if os.path.exists(outp):
        results = json.load(open(outp))
    done = {(r["file"], r["line"], r["op"], r["new"]) for r in results}
    for path in files:
        src = open(os.path.join(wt, path)).read()
        cands = candidates(path, src)
        rnd.shuffle(cands)
        taken = 0
        for c in cands:
            if taken >= per:
                break
            if (c["file"], c["line"], c["op"], c["new"]) in done:
                taken += 1
                continue
            lines = src.split("\n")
            lines[c["line"] - 1] = c["new"]
            open(os.path.join(wt, path), "w").write("\n".join(lines))
            mod = "v2" if path.startswith("v2/") else "."
            pk = "./..." if mod == "v2" else "./stringclassifier/... ./commentparser/... ./internal/... ./serializer/... ."
            rc, out = sh("go build ./... 2>&1 | tail -5", cwd=os.path.join(wt, mod), timeout=300)
            if rc != 0 or "cannot" in out or ".go:" in out:
                open(os.path.join(wt, path), "w").write(src)
                continue  # does not compile: not a mutant
            if mod == "v2":
                rc, out = sh("go test -vet=off -count=1 -timeout 300s ./... 2>&1 | tail -30", cwd=os.path.join(wt, mod), timeout=400)
            else:
                rc, out = sh("go test -vet=off -count=1 -timeout 300s ./stringclassifier/... ./commentparser/... ./internal/... ./serializer/... 2>&1 | tail -30", cwd=wt, timeout=400)
            c["suite"] = "killed" if ("FAIL" in out or "panic" in out or rc == 124) else "survives"
            taken += 1
            if c["suite"] == "killed":
                c["verdict"] = "killed-by-suite"
            else:
                c["checks"] = {}
                c["verdict"] = "SURVIVES"
                for pid in guards_for(path):
                    t0 = time.time()
                    r = subprocess.run([os.path.join(VERIF, "run"), pid, "--tier", tier],
                                       env=dict(os.environ, VERIF_REPO=wt, VERIF_REPLAY_DIR="/tmp/mutsample-replays", VERIF_EVIDENCE_DIR="/tmp/mutsample-evidence"),
                                       text=True, errors="replace", stdout=subprocess.PIPE, stderr=subprocess.PIPE)
                    v = {0: "missed", 1: "caught", 2: "inconclusive"}.get(r.returncode, str(r.returncode))
                    msg = ""
                    for l in r.stderr.splitlines():
                        if l.startswith("  "):
                            msg = l.strip()[:200]
                            break
                    c["checks"][pid] = {"verdict": v, "wall_s": round(time.time() - t0, 1), "message": msg}
                    if v == "caught":
                        c["verdict"] = "caught-by-" + pid
                        break
            open(os.path.join(wt, path), "w").write(src)
            results.append(c)
            json.dump(results, open(outp, "w"), indent=1)
            print("%-44s L%-4d %-16s | %s -> %s" % (path, c["line"], c["verdict"], c["old"].strip()[:60], c["new"].strip()[:60]), flush=True)
    sh("git reset -q --hard", cwd=wt)
    shutil.rmtree("/tmp/mutsample-replays", ignore_errors=True)
    n = len(results)
    ks = sum(1 for r in results if r["verdict"] == "killed-by-suite")
    cg = sum(1 for r in results if r["verdict"].startswith("caught"))
    sv = [r for r in results if r["verdict"] == "SURVIVES"]
    print("summary: %d mutants that compile; %d killed by the repository's own tests; of the %d that pass them, %d caught by the checks, %d survive" % (n, ks, n - ks, cg, len(sv)))


main()
