#!/usr/bin/env python3
"""Sensitivity trials (DESIGN.md 2.6): apply each listed mutant to a scratch worktree of /repo (never /repo itself),
optionally run the pinned tests there, run the named property checks with VERIF_REPO pointing at the worktree, report.

usage: trymut.py [--tests] [--tier quick|thorough] [--only name,...] mutants.json
mutants.json: [{"name":..., "file": "v2/searchset.go", "old": "...", "new": "...", "props": ["C01"]}, ...]
"""
import json, os, subprocess, sys, shutil, time
WT = "/tmp/mut"
VERIF = os.path.dirname(os.path.dirname(os.path.abspath(__file__)))
ENV = dict(os.environ, GOFLAGS="-mod=mod", GOPROXY="off", GOSUMDB="off", GOTOOLCHAIN="local")


def sh(cmd, **kw):
    return subprocess.run(cmd, shell=True, text=True, errors="replace", stdout=subprocess.PIPE, stderr=subprocess.STDOUT, **kw)


def main():
    args = sys.argv[1:]
    tests = "--tests" in args
    tier = "quick"
    only = None
    if "--tier" in args:
        tier = args[args.index("--tier") + 1]
    if "--only" in args:
        only = set(args[args.index("--only") + 1].split(","))
    muts = json.load(open(args[-1]))
    if not os.path.isdir(WT):
        sh("git -C /repo worktree prune; git -C /repo worktree add --detach %s" % WT)
    results = []
    for m in muts:
        if only and m["name"] not in only:
            continue
        sh("git -C %s checkout -q -- . && git -C %s clean -fdq" % (WT, WT))
        # bring the worktree to /repo's HEAD (fix: commits included)
        sh("git -C %s checkout -q --detach $(git -C /repo rev-parse HEAD)" % WT)
        edits = m.get("edits") or [{"file": m["file"], "old": m["old"], "new": m["new"]}]
        ok = True
        for e in edits:
            p = os.path.join(WT, e["file"])
            s = open(p).read()
            if s.count(e["old"]) < 1:
                print("!! %s: pattern not found in %s" % (m["name"], e["file"]))
                ok = False
                break
            s = s.replace(e["old"], e["new"], 1)
            open(p, "w").write(s)
        if not ok:
            results.append((m["name"], "PATTERN-MISSING", ""))
            continue
        tres = ""
        if tests:
            mod = "v2" if edits[0]["file"].startswith("v2/") else "."
            r = subprocess.run("go build ./... && go test -vet=off -count=1 ./... 2>&1 | tail -15", shell=True, cwd=os.path.join(WT, mod), env=ENV, text=True, errors="replace", stdout=subprocess.PIPE, stderr=subprocess.STDOUT)
            tres = "tests-pass" if ("FAIL" not in r.stdout and r.returncode == 0) else "TESTS-FAIL"
            if tres == "TESTS-FAIL":
                print(r.stdout[-600:])
        for pid in m["props"]:
            t0 = time.time()
            r = subprocess.run([os.path.join(VERIF, "run"), pid, "--tier", tier], env=dict(os.environ, VERIF_REPO=WT, VERIF_REPLAY_DIR="/tmp/mutreplays"),
                               text=True, errors="replace", stdout=subprocess.PIPE, stderr=subprocess.PIPE)
            verdict = {0: "MISSED", 1: "caught", 2: "inconclusive"}.get(r.returncode, str(r.returncode))
            first = ""
            for l in r.stderr.splitlines():
                if l.startswith("  "):
                    first = l.strip()[:160]
                    break
            print("%-40s %-4s %-12s %-10s %5.1fs %s" % (m["name"], pid, verdict, tres, time.time() - t0, first), flush=True)
            if verdict == "inconclusive":
                print(r.stderr[-1500:])
            results.append((m["name"], pid, verdict))
    sh("git -C %s checkout -q -- ." % WT)
    shutil.rmtree("/tmp/mutreplays", ignore_errors=True)
    # restore evidence files produced against mutants is the caller's job: re-run the checks on /repo before committing
    missed = [r for r in results if r[2] == "MISSED"]
    print("summary: %d trials, %d missed" % (len(results), len(missed)))


main()
