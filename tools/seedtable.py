#!/usr/bin/env python3
"""Merge the one-line descriptions of the seeded changes (seeded/summaries.json) into every
seeded/<id>/meta.json ("change", "needs_to_manifest") and print the DESIGN.md table (section 8.6).

usage: tools/seedtable.py            # prints the markdown table
"""
import json, os, re, sys

VERIF = os.path.dirname(os.path.dirname(os.path.abspath(__file__)))
SEEDED = os.path.join(VERIF, "seeded")


def main():
    summ = {}
    p = os.path.join(SEEDED, "summaries.json")
    if os.path.exists(p):
        summ = json.load(open(p))
    extra = {}
    p2 = os.path.join(SEEDED, "cross_checks.json")  # seed -> {other property: verdict}, recorded by hand from trial runs
    if os.path.exists(p2):
        extra = json.load(open(p2))
    rows = []
    for d in sorted(os.listdir(SEEDED), key=lambda x: (x[:3], len(x), x)):
        mp = os.path.join(SEEDED, d, "meta.json")
        if not os.path.exists(mp):
            continue
        m = json.load(open(mp))
        s = summ.get(d, {})
        changed = False
        for k_src, k_dst in (("change", "change"), ("needs", "needs_to_manifest")):
            if s.get(k_src) and m.get(k_dst) != s[k_src]:
                m[k_dst] = s[k_src]
                changed = True
        if d in extra and m.get("caught_by_other_checks") != extra[d]:
            m["caught_by_other_checks"] = extra[d]
            changed = True
        if changed:
            json.dump(m, open(mp, "w"), indent=1, ensure_ascii=False)
        own = m.get("property", d[:3])
        verdicts = []
        for tier, res in sorted(m.get("results", {}).items()):
            for pid, r in sorted(res.items()):
                verdicts.append("%s %s: %s" % (pid, tier, r.get("verdict")))
        for pid, v in sorted(m.get("caught_by_other_checks", {}).items()):
            verdicts.append("%s: %s" % (pid, v))
        note = m.get("note", "")
        rows.append((d, m.get("change", ""), m.get("needs_to_manifest", ""), "; ".join(verdicts), note))
    print("| seed | change | needs to manifest | checks (final run) | note |")
    print("|---|---|---|---|---|")
    for r in rows:
        print("| %s |" % " | ".join(x.replace("|", "\\|").replace("\n", " ") for x in r))


if __name__ == "__main__":
    main()
